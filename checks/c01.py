"""C01 - Event list is a faithful priority queue.  Engine A (CrossHair on the real code)."""
import itertools

from vf.driver import Cond


def _conds(tier):
    conds = []

    def script(s, n, time="int", fixk=None, timeout=240, tmax=None, heappre=0, split12=None):
        env = {"VF_SCRIPT": s, "VF_N": n, "VF_TIME": time,
               "VF_TMAX": tmax if tmax is not None else (8 if time != "duration" else 3)}
        name = f"script[{s}]/N={n}/{time}"
        if fixk is not None:
            env["VF_FIXK"] = fixk
            name += f"/k0={fixk}"
        if heappre:
            env["VF_HEAPPRE"] = 1
            name += "/heap-ordered-prestate"
        if split12 is not None:
            env["VF_SPLIT12"] = split12
            name += f"/t1{'<=>'[split12]}t2"
        conds.append(Cond(name, "c01", "h_script", env, timeout))

    if tier == "quick":
        # one step from every state built by 4 adds (every heap-ordered array of 4 entries)
        for k in range(4):
            script("R", 4, fixk=k)
        # one step from every heap-ordered array of 7 entries: the smallest size at which a removal
        # that repairs the heap in one direction only shows up in the drain (interior index 3)
        for sp in (0, 1, 2):
            script("R", 7, fixk=3, heappre=1, split12=sp, timeout=900)
        # one add after every heap-ordered array of 5 entries (6 events: the smallest size at which an add that
        # skips the sift for "large" keys shows in the drain), split by the order of events #1 and #2
        for sp in (0, 1, 2):
            script("A", 5, heappre=1, split12=sp, timeout=900)
        script("A", 3)
        script("P", 3)
        script("X", 3)
        script("C", 3)
        # interior removal followed by further adds and pops
        for k in range(3):
            script("RAP", 3, fixk=k)
        script("PRA", 3)
        script("RR", 3)
        script("XAR", 2)
        script("R", 3, time="float")
        script("R", 3, time="duration")
        script("A", 3, time="bigint", tmax=3)      # int clock at 2**53 + 0..3: concrete ints that collide as doubles
        for t in ("int", "float", "duration"):
            conds.append(Cond(f"cmp/{t}", "c01", "h_cmp", {"VF_TIME": t, "VF_TMAX": 2 if t == "duration" else 8}, 240))
    else:
        script("A", 3, time="bigint", tmax=5, timeout=1500)      # (N=4 adds did not finish inside 1500 s)
        script("R", 4, time="bigint", tmax=3, timeout=1500)
        for k in range(5):
            script("R", 5, fixk=k, timeout=1500)
        for n in (5, 6):                                        # (n = 7 did not finish inside 2400 s)
            for sp in (0, 1, 2):
                script("A", n, heappre=1, split12=sp, timeout=2400)
        for k in range(7):
            for sp in (0, 1, 2):
                script("R", 7, fixk=k, heappre=1, split12=sp, timeout=2400)
                pass
        for k in range(4):
            for s in ("RA", "RP", "RAP", "RPA", "RR", "RC"):
                script(s, 4, fixk=k, timeout=1500)
        for s in ("A", "P", "X", "C", "XAR", "PP", "KRK"):
            script(s, 4, timeout=1500)
        # (PRA, ARP and AA on 4 initial events did not finish inside 1500 s under load: they stay at N = 3, split by the first index)
        for s in ("PRA", "ARP"):                                  # (AA at N = 3 is part of the skeleton sweep below)
            script(s, 3, timeout=1500)
        # all skeletons of length <= 3 over the six operations on 3 initial events
        ops = "ARPKCX"
        seen = {c.env["VF_SCRIPT"] for c in conds if c.env.get("VF_N") == 3}
        for ln in (1, 2):
            for tup in itertools.product(ops, repeat=ln):
                s = "".join(tup)
                if s.count("X") > 1 or s.endswith("K"):
                    continue
                script(s, 3, timeout=900)
        for t in ("float", "duration"):
            for k in range(4):
                script("R", 4, time=t, fixk=k, timeout=1500)
            if t == "float":
                script("RAP", 3, time=t, timeout=900)
            else:
                for k in range(3):                                # (unsplit it did not finish inside 900 s)
                    script("RAP", 3, time=t, fixk=k, timeout=1500)
        for t in ("int", "float", "duration"):
            conds.append(Cond(f"cmp/{t}", "c01", "h_cmp", {"VF_TIME": t, "VF_TMAX": 3 if t == "duration" else 8}, 900))
    return conds


def run(ctx):
    import pydsol.core.eventlist as el
    import pydsol.core.simevent as se
    for f in (el.EventListHeap.add, el.EventListHeap.remove, el.EventListHeap.pop_first,
              el.EventListHeap.peek_first, el.EventListHeap.contains, el.EventListHeap.size,
              el.EventListHeap.is_empty, el.EventListHeap.clear, se.SimEvent.__init__,
              se.SimEvent.__cmp__, se.SimEvent.__lt__, se.SimEvent.__eq__):
        ctx.source_hash(f)
    ctx.bounds = {
        "initial build": "N adds of events with symbolic (time, priority); N<=4 quick, N<=5 thorough; plus N=7 with the "
                         "events arriving in heap order and equal priorities (every heap-ordered array of 7 entries as "
                         "pre-state; quick: removal index 3, thorough: every index)",
        "operation skeleton": "fixed per condition (letters A R P K C X), all data symbolic: times 0..8 "
                              "(int: symbolic ints; float: symbolic halves; Duration: symbolic index into a "
                              "5-value grid with equal SI values in different units), priorities 1..3, "
                              "removal/contains index over every event created so far (pending or not)",
        "thorough": "every skeleton of length <=2 over {A,R,P,K,C,X} on 3 initial events, plus N=4/5 families and N=7 heap-ordered pre-states with every removal index",
    }
    ctx.assumptions = [
        "heapq, list and tuple comparison of CPython are trusted (executed, not modelled)",
        "SimEvent ids are creation order inside the process (the id counter itself is exercised by C07)",
        "Duration times are taken from a concrete grid (C-level float slot cannot be symbolic)",
    ]
    ctx.outside = ["more than 5 pending events inside one step; skeletons longer than the listed ones",
                   "NaN times (owned by C02)"]
    ctx.crosshair(_conds(ctx.tier))
