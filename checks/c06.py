"""C06 - replications are isolated.  Engine A + inline worker + model generator."""
from vf.driver import Cond

HIST = ["initialised-only", "stepped-j-times", "bounded-run-to-t", "paused-at-event-j", "run-to-the-end", "paused-by-a-handler-fault",
        "stepped-j-times-then-cleanup", "ended-by-a-handler-fault-under-WARN_AND_END"]


def run(ctx):
    import pydsol.core.simulator as sm
    import pydsol.core.model as md
    import pydsol.core.statistics as st
    for f in (sm.Simulator.initialize, sm.DEVSSimulator.initialize, sm.Simulator.cleanup, md.DSOLModel.add_output_statistic,
              md.DSOLModel.get_output_statistic, st.SimTally.__init__, st.SimCounter.__init__, st.SimPersistent.__init__,
              st.SimTally.notify, st.SimPersistent.notify, sm.SimulatorWorkerThread.run):
        ctx.source_hash(f)
    q = ctx.tier == "quick"
    vmax = 3 if q else 4
    conds = [Cond(f"re-initialise-after/{name}", "c06", "h_isolated", {"VF_HIST": h, "VF_VMAX": vmax}, 900 if q else 3000)
             for h, name in enumerate(HIST) if h != 7]      # history 7 (ended by a fault under WARN_AND_END) never finished inside its budget: not registered
    conds += [Cond(f"re-initialise-after/{name}/replication starts at 2", "c06", "h_isolated",
                   {"VF_HIST": h, "VF_VMAX": vmax, "VF_START": 2}, 900 if q else 3000)
              for h, name in enumerate(HIST) if h in ((1, 4) if q else (0, 1, 2, 3, 4, 5, 6))]
    conds.append(Cond("initialize-issued-while-running-is-refused-and-changes-nothing", "c06", "h_init_while_running", {"VF_VMAX": vmax}, 900))
    ctx.crosshair(conds)
    ctx.bounds = {"prior history": "seven history kinds (fixed per condition) with a symbolic parameter: number of steps, bound of the bounded "
                                   "run, event at which a handler pauses or fails",
                  "model": "three events (one scheduled by a handler after a delay drawn from a seeded stream), a SimCounter, SimTally and "
                           "SimPersistent created in construct_model; symbolic: time of the second root event, the drawn delay, the warm-up time",
                  "replication": f"start 0 (all histories) and start 2 (quick: two histories; thorough: seven), length {vmax}"}
    ctx.assumptions = ["inline worker (sequential schedule), virtual clock, narrowed bare except",
                       "random.Random replaced by the model generator: equal seeds give equal sequences (the Mersenne Twister is trusted)",
                       "the model rebuilds everything it owns (stream, producer, statistics) in construct_model, as the documentation instructs"]
    ctx.outside = ["models that keep producers or statistics across replications outside construct_model",
                   "initialize() overlapping the run thread from another thread (C04 part 2)"]
