"""C16 - quantity arithmetic is dimensionally sound and type safe.
Engine C (z3 over the live tables) + Engine B (astsym value/type flow per pair) + Engine A (unit strings)."""
import itertools
import time

import z3

from vf import astsym as A
from vf.driver import Cond, Obligation
from vf.statlemma import model_num


def run(ctx):
    import pydsol.core.units as U
    Q = list(U.QUANTITIES)
    names = [q.__name__ for q in Q]
    nq = len(Q)

    def ob(name, verdict, detail="", queries=1, sample=None, engine="astsym-z3"):
        return ctx.add(Obligation(name, verdict, engine, detail, 0.0, queries, sample))

    # ------------------------------------------------------------------ Engine C: tables as z3 facts
    t0 = time.time()
    Cls, cs = z3.EnumSort("Cls", names + ["SI_generic"])
    idx = {q: cs[i] for i, q in enumerate(Q)}
    NONE = cs[-1]
    sig = z3.Function("sig", Cls, z3.IntSort(), z3.IntSort())
    mulf = z3.Function("mul", Cls, Cls, Cls)
    divf = z3.Function("div", Cls, Cls, Cls)
    s = z3.Solver()
    bad_struct = []
    for q in Q:
        sg = q.sisig()
        if len(sg) != 9 or not issubclass(q, U.Quantity):
            bad_struct.append(q.__name__)
        for i in range(9):
            s.add(sig(idx[q], i) == sg[i])
        for tab, f in ((q._mul, mulf), (q._div, divf)):
            for b in Q:
                r = tab.get(b)
                if r is not None and r not in idx:
                    bad_struct.append(f"{q.__name__}/{b.__name__}->{r}")
                s.add(f(idx[q], idx[b]) == (idx[r] if r in idx else NONE))
    a, b, i = z3.Const("a", Cls), z3.Const("b", Cls), z3.Int("i")
    for opname, f, sgn in (("mul", mulf, 1), ("div", divf, -1)):
        s.push()
        s.add(a != NONE, b != NONE, f(a, b) != NONE, i >= 0, i < 9,
              sig(f(a, b), i) != sig(a, i) + sgn * sig(b, i))
        r = s.check()
        nm = f"tables/{opname}: every entry's signature is the {'sum' if sgn > 0 else 'difference'} of the operand signatures (41x41 pairs, z3 finite-domain query)"
        if str(r) == "unsat" and not bad_struct:
            ob(nm, "pass", f"unsat; {sum(len(q._mul if opname == 'mul' else q._div) for q in Q)} entries", 1,
               {"query": f"exists A,B,i: {opname}[A][B] defined and sig({opname}[A][B],i) != sig(A,i) {'+' if sgn > 0 else '-'} sig(B,i)"}, "z3-table")
        elif str(r) == "sat":
            m = s.model()
            an, bn = str(m.eval(a)), str(m.eval(b))
            ctx.report_counterexample(nm, "z3-table", "c16", "r_pair", [an, bn, opname, 6.0, 1.5], {}, {})
        else:
            ob(nm, "inconclusive", f"{r} {bad_struct}", 1, None, "z3-table")
        s.pop()
    table_s = time.time() - t0

    # ------------------------------------------------------------------ Engine B: value / type flow
    eng = A.Engine()
    x, y = z3.Reals("x y")

    def make(path, cls, val, unit=None):
        res = eng.apply(path, cls, [val] + ([unit] if unit else []), {}, None)
        assert len(res) == 1 and isinstance(res[0][1], A.SObj), res
        return res[0][0], res[0][1]

    def result_sig(path, v):
        if v.cls is U.SI:
            return list(path.heap[v.oid]["_sisig"])
        return list(v.cls.sisig())

    pairs = list(itertools.product(range(nq), repeat=2))
    if ctx.tier == "quick":
        # every pair with a table entry, and a third of the fall-back pairs (rotating with the seed)
        keep = []
        for ai, bi in pairs:
            if Q[bi] in Q[ai]._mul or Q[bi] in Q[ai]._div or (ai * nq + bi + ctx.seed) % 3 == 0:
                keep.append((ai, bi))
        pairs = keep
    for opname, meth in (("mul", "__mul__"), ("div", "__truediv__")):
        fails, nqr, npairs = [], 0, 0
        for ai, bi in pairs:
            Aq, Bq = Q[ai], Q[bi]
            p = A.Path()
            p, oa = make(p, Aq, x)
            p, obb = make(p, Bq, y)
            npairs += 1
            exp_cls = (Aq._mul if opname == "mul" else Aq._div).get(Bq, U.SI)
            exp_sig = [u + v if opname == "mul" else u - v for u, v in zip(Aq.sisig(), Bq.sisig())]
            try:
                outs = eng.call_method(p, oa, meth, [obb], {})
            except A.Unsupported as e:
                fails.append((Aq.__name__, Bq.__name__, "unsupported: " + str(e), None))
                continue
            for q, o in outs:
                if o[0] == "raise":
                    if opname == "div" and o[1] == "ZeroDivisionError":
                        r, _ = A.prove(eng, q, y == 0)
                        nqr += 1
                        if r == "unsat":
                            continue
                    r, m = A.prove(eng, q, False)
                    nqr += 1
                    if r != "unsat":
                        fails.append((Aq.__name__, Bq.__name__, "raises " + str(o[1]), m))
                    continue
                v = o[1]
                if not isinstance(v, A.SObj) or v.cls is not exp_cls or result_sig(q, v) != exp_sig:
                    fails.append((Aq.__name__, Bq.__name__, "type/signature", None))
                    continue
                val = q.heap[v.oid]["__si__"]
                r, m = A.prove(eng, q, A.to_real(val) == (x * y if opname == "mul" else x / y))
                nqr += 1
                if r != "unsat":
                    fails.append((Aq.__name__, Bq.__name__, "si value", m))
        nm = f"flow/{opname}: for every ordered pair of quantity types the result is the table class or a generic SI value, its SI value is the {'product' if opname == 'mul' else 'quotient'} of the operands' SI values for ALL values, its signature the {'sum' if opname == 'mul' else 'difference'}"
        if not fails:
            ob(nm, "pass", f"{npairs} ordered pairs, {nqr} z3 queries", nqr, {"pairs": npairs, "example": f"{Q[pairs[0][0]].__name__} {opname} {Q[pairs[0][1]].__name__}"})
        else:
            an, bn, why, m = fails[0]
            if why.startswith("unsupported"):
                ob(nm, "inconclusive", f"{an} {opname} {bn}: {why}", nqr)
            else:
                xv = model_num(m, x) if m is not None else 6.0
                yv = model_num(m, y) if m is not None else 1.5
                ctx.report_counterexample(nm, "astsym-z3", "c16", "r_pair", [an, bn, opname, xv, yv], {}, {})

    # operands are values: * and / must not modify them (a generic SI value used twice must give the same result twice)
    import copy as _copy
    fails, ncalls = [], 0
    for Bq in Q:
        for opname, meth in (("mul", "__mul__"), ("div", "__truediv__")):
            p = A.Path()
            p, s1 = make(p, U.SI, x, "m")
            p, obb = make(p, Bq, y)
            snap = {k: _copy.deepcopy(v) for k, v in p.heap[s1.oid].items() if not A.is_sym(v)}
            snapb = {k: _copy.deepcopy(v) for k, v in p.heap[obb.oid].items() if not A.is_sym(v)}
            ncalls += 1
            try:
                outs = eng.call_method(p, s1, meth, [obb], {})
            except A.Unsupported as e:
                fails.append((Bq.__name__, opname, "unsupported: " + str(e)))
                continue
            for q, o in outs:
                if o[0] != "return":
                    continue
                now = {k: v for k, v in q.heap[s1.oid].items() if not A.is_sym(v)}
                nowb = {k: v for k, v in q.heap[obb.oid].items() if not A.is_sym(v)}
                if now != snap or nowb != snapb:
                    fails.append((Bq.__name__, opname, "operand modified"))
    nm = "flow/operands are not modified: after SI(x,'m') * Q(y) and SI(x,'m') / Q(y) both operands still carry their signature and unit (all 41 right-hand types)"
    if not fails:
        ob(nm, "pass", f"{ncalls} operations", ncalls)
    elif fails[0][2].startswith("unsupported"):
        ob(nm, "inconclusive", str(fails[0]), ncalls)
    else:
        ctx.report_counterexample(nm, "astsym-z3", "c16", "r_reuse", [fails[0][0], fails[0][1]], {}, {})

    # number x quantity, quantity / number, number / quantity
    k = z3.Real("k")
    fails, nqr = [], 0
    for Aq in Q:
        for op, meth, args in (("mul", "__mul__", [k]), ("rmul", "__rmul__", [k]), ("div", "__truediv__", [k]), ("rdiv", "__rtruediv__", [k])):
            p = A.Path()
            p, oa = make(p, Aq, x)
            for q, o in eng.call_method(p, oa, meth, args, {}):
                if o[0] == "raise":
                    zero = (k == 0) if op == "div" else (x == 0)
                    r, _ = A.prove(eng, q, zero if (o[1] == "ZeroDivisionError" and op in ("div", "rdiv")) else False)
                    nqr += 1
                    if r != "unsat":
                        fails.append((Aq.__name__, op, "raises " + str(o[1])))
                    continue
                v = o[1]
                if op == "rdiv":
                    ok = isinstance(v, A.SObj) and result_sig(q, v) == [-e for e in Aq.sisig()]
                    expv = k / x
                else:
                    ok = isinstance(v, A.SObj) and v.cls is Aq and q.heap[v.oid].get("_unit") == Aq._baseunit
                    expv = x * k if op != "div" else x / k
                if not ok:
                    fails.append((Aq.__name__, op, "type/unit/signature"))
                    continue
                r, _ = A.prove(eng, q, A.to_real(q.heap[v.oid]["__si__"]) == expv)
                nqr += 1
                if r != "unsat":
                    fails.append((Aq.__name__, op, "value"))
    nm = "flow/scaling: number*quantity, quantity*number, quantity/number keep class and unit and scale the SI value; number/quantity has the negated signature (all 41 types, all values)"
    if not fails:
        ob(nm, "pass", f"{nqr} z3 queries", nqr)
    else:
        ctx.report_counterexample(nm, "astsym-z3", "c16", "r_scale", [fails[0][0], fails[0][1], 3.0, 2.0], {}, {})

    # mixed-type + - < <= > >= refused, == / != across types; same-type operations act on SI values
    ops = {"add": "__add__", "sub": "__sub__", "lt": "__lt__", "le": "__le__", "gt": "__gt__", "ge": "__ge__",
           "eq": "__eq__", "ne": "__ne__"}
    fails, ncalls = [], 0
    mixed_pairs = [(ai, bi) for ai in range(nq) for bi in range(nq) if ai != bi]
    if ctx.tier == "quick":
        mixed_pairs = [pq for n, pq in enumerate(mixed_pairs) if (n + ctx.seed) % 4 == 0]
    for ai, bi in mixed_pairs:
        p = A.Path()
        p, oa = make(p, Q[ai], x)
        p, obb = make(p, Q[bi], y)
        for op, meth in ops.items():
            ncalls += 1
            for q, o in eng.call_method(p.clone(), oa, meth, [obb], {}):
                if op in ("eq", "ne"):
                    if o != ("return", op == "ne"):
                        fails.append((Q[ai].__name__, Q[bi].__name__, op))
                elif not (o[0] == "raise" and o[1] in ("ValueError", "TypeError")):
                    fails.append((Q[ai].__name__, Q[bi].__name__, op))
    nm = "flow/mixed types: + - < <= > >= between different quantity types raise ValueError/TypeError on every path; == is False and != is True"
    if not fails:
        ob(nm, "pass", f"{len(mixed_pairs)} ordered pairs x 8 operators, values symbolic", ncalls, {"pairs": len(mixed_pairs)})
    else:
        ctx.report_counterexample(nm, "astsym-z3", "c16", "r_mixed", list(fails[0]), {}, {})
    # generic SI values of different signature
    fails = []
    for op, meth in ops.items():
        p = A.Path()
        p, s1 = make(p, U.SI, x, "m")
        p, s2 = make(p, U.SI, y, "s")
        for q, o in eng.call_method(p, s1, meth, [s2], {}):
            if op in ("eq", "ne"):
                if o != ("return", op == "ne"):
                    fails.append(op)
            elif not (o[0] == "raise" and o[1] in ("ValueError", "TypeError")):
                fails.append(op)
    nm = "flow/generic SI values with different signatures: + - < <= > >= refused, == False, != True"
    if not fails:
        ob(nm, "pass", "8 operators", 8)
    else:
        ctx.report_counterexample(nm, "astsym-z3", "c16", "r_mixed", ["SI", "SI", fails[0]], {}, {})
    # same type
    fails, nqr = [], 0
    for Aq in Q:
        units = list(Aq._units.keys())
        ua, ub = units[0], units[-1]
        p = A.Path()
        p, oa = make(p, Aq, x, ua)
        p, obb = make(p, Aq, y, ub)
        fa, fb = Aq._units[ua], Aq._units[ub]
        for op, meth in ops.items():
            for q, o in eng.call_method(p.clone(), oa, meth, [obb], {}):
                if o[0] != "return":
                    fails.append((Aq.__name__, op, ua, ub))
                    continue
                v = o[1]
                sa, sb = x * A.to_z3(float(fa)), y * A.to_z3(float(fb))
                if op in ("add", "sub"):
                    ok = isinstance(v, A.SObj) and v.cls is Aq and q.heap[v.oid].get("_unit") == ua
                    claim = ok and (A.to_real(q.heap[v.oid]["__si__"]) == (sa + sb if op == "add" else sa - sb))
                else:
                    expb = {"lt": sa < sb, "le": sa <= sb, "gt": sa > sb, "ge": sa >= sb, "eq": sa == sb, "ne": sa != sb}[op]
                    claim = (A.to_z3(v) == expb) if A.is_sym(v) else False
                if claim is False:
                    fails.append((Aq.__name__, op, ua, ub))
                    continue
                r, _ = A.prove(eng, q, claim)
                nqr += 1
                if r != "unsat":
                    fails.append((Aq.__name__, op, ua, ub))
    nm = "flow/same type: + - act on the SI values and keep class and the left operand's unit; comparisons compare SI values (all 41 types, two different units, all values)"
    if not fails:
        ob(nm, "pass", f"{nqr} z3 queries", nqr)
    else:
        f0 = fails[0]
        ctx.report_counterexample(nm, "astsym-z3", "c16", "r_same", [f0[0], f0[1], 2.0, 3.0, f0[2], f0[3]], {}, {})

    # SI.as_quantity succeeds exactly when the signatures match
    sigs = []
    for q in Q:
        if list(q.sisig()) not in sigs:
            sigs.append(list(q.sisig()))
    sigs.append([1, 0, 0, 0, 0, 0, 0, 0, 1])
    fails, ncalls = [], 0
    c_as, f_as = eng.find_method(U.SI, "as_quantity")
    for q in Q:
        for sg in sigs:
            p = A.Path()
            p, so = make(p, U.SI, x)
            p.heap[so.oid]["_sisig"] = list(sg)
            ncalls += 1
            same = list(q.sisig()) == sg
            for qq, o in eng.call_method(p, so, "as_quantity", [q], {}):
                if same:
                    okv = o[0] == "return" and isinstance(o[1], A.SObj) and o[1].cls is q
                    if okv:
                        r, _ = A.prove(eng, qq, A.to_real(qq.heap[o[1].oid]["__si__"]) == x)
                        okv = r == "unsat"
                    if not okv:
                        fails.append((q.__name__, sg))
                elif not (o[0] == "raise" and o[1] in ("ValueError", "TypeError")):
                    fails.append((q.__name__, sg))
    nm = "flow/as_quantity: a generic SI value converts to a named quantity exactly when the signatures match (41 types x all distinct signatures)"
    if not fails:
        ob(nm, "pass", f"{ncalls} (type, signature) combinations, value symbolic", ncalls)
    else:
        ctx.report_counterexample(nm, "astsym-z3", "c16", "r_as_quantity", [fails[0][0], fails[0][1], 2.5], {}, {})

    ctx.functions.extend(sorted(eng.functions_used))
    ctx.notes.append(f"Engine C: tables of {nq} classes encoded as z3 facts, {table_s:.2f}s; Engine B: {eng.queries} z3 queries, {eng.solver_s:.2f}s")

    # ------------------------------------------------------------------ Engine A: unit strings
    triples = ["3,4,7", "0,1,4", "2,6,8", "3,7,8"] if ctx.tier == "quick" else \
        [",".join(map(str, t)) for t in itertools.combinations(range(9), 3)]
    conds = []
    for t in triples:
        for fmt in range(8):
            conds.append(Cond(f"unit-string-round-trip/positions={t}/format={fmt}", "c16", "h_roundtrip",
                              {"VF_POS": t, "VF_FMT": fmt}, 600 if ctx.tier == "quick" else 1800))
    ctx.crosshair(conds)
    ctx.bounds = {"tables": "all 41 x 41 ordered pairs (exhaustive, finite configuration space)",
                  "flow": ("every pair with a table entry and a third of the fall-back pairs" if ctx.tier == "quick" else "all 41 x 41 ordered pairs")
                          + "; values symbolic reals (all values)",
                  "unit strings": "exponents -3..3 at three positions of the signature (quick: 4 position triples incl. m/mol, s/sr, kg/K/cd; "
                                  "thorough: all 84 triples), all 8 print formats"}
    ctx.assumptions = ["exact real arithmetic for SI values", "Quantity/SI instances modelled as objects whose float value is a symbolic real "
                       "(float.__new__ is C code); control flow, tables and unit bookkeeping are the live Python source"]
    ctx.outside = ["multi-digit exponents", "signatures with more than three non-zero exponents in the string round trip"]
