"""C17 - unit conversion is faithful for every declared unit of every quantity.
Engine B (astsym, value symbolic, one summary per (class, unit)) + ground facts from the live tables."""
import z3

from vf import astsym as A
from vf.driver import Obligation
from vf.statlemma import model_num


def run(ctx):
    import pydsol.core.units as U
    Q = list(U.QUANTITIES)
    eng = A.Engine()
    x = z3.Real("x")

    def ob(name, verdict, detail="", queries=1, sample=None, engine="astsym-z3"):
        return ctx.add(Obligation(name, verdict, engine, detail, 0.0, queries, sample))

    nunits = sum(len(q._units) for q in Q)
    fails, nq, done = [], 0, 0
    per_class = {}
    for q in Q:
        per_class[q.__name__] = (len(fails), nq)
        units = list(q._units.keys())
        for n, u in enumerate(units):
            f = q._units[u]
            u2 = units[(n + 1) % len(units)]
            done += 1
            try:
                p = A.Path()
                res = eng.apply(p, q, [x, u], {}, None)
                if len(res) != 1 or not isinstance(res[0][1], A.SObj):
                    fails.append((q.__name__, u, "constructor", None))
                    continue
                p, o = res[0]
                h = p.heap[o.oid]
                fz = A.to_z3(float(f)) if isinstance(f, (int, float)) else None
                if fz is None or h.get("_unit") != u:
                    fails.append((q.__name__, u, "unit", None))
                    continue
                r, m = A.prove(eng, p, A.to_real(h["__si__"]) == x * fz)
                nq += 1
                if r != "unsat":
                    fails.append((q.__name__, u, "si", m))
                    continue
                # displayvalue * factor == si
                for qq, oo in eng.call_method(p.clone(), o, "displayvalue", [], {}) if False else []:
                    pass
                c_d = [c for c in q.__mro__ if "displayvalue" in c.__dict__][0]
                dv = eng.call_function(p.clone(), c_d.__dict__["displayvalue"].fget, [], {}, self_obj=o, defining_cls=c_d)
                for qq, oo in dv:
                    if oo[0] != "return":
                        fails.append((q.__name__, u, "displayvalue raises", None))
                        continue
                    r, m = A.prove(eng, qq, A.to_real(oo[1]) * fz == A.to_real(h["__si__"]))
                    nq += 1
                    if r != "unsat":
                        fails.append((q.__name__, u, "displayvalue", m))
                # as_unit keeps the SI value; negation / abs keep class and unit
                for qq, oo in eng.call_method(p.clone(), o, "as_unit", [u2], {}):
                    okv = oo[0] == "return" and isinstance(oo[1], A.SObj) and oo[1].cls is q and qq.heap[oo[1].oid].get("_unit") == u2
                    if okv:
                        r, m = A.prove(eng, qq, A.to_real(qq.heap[oo[1].oid]["__si__"]) == A.to_real(h["__si__"]))
                        nq += 1
                        okv = r == "unsat"
                    if not okv:
                        fails.append((q.__name__, u, "as_unit", None))
                for meth, expf in (("__neg__", lambda s: -s), ("__abs__", lambda s: z3.If(s >= 0, s, -s))):
                    for qq, oo in eng.call_method(p.clone(), o, meth, [], {}):
                        okv = oo[0] == "return" and isinstance(oo[1], A.SObj) and oo[1].cls is q and qq.heap[oo[1].oid].get("_unit") == u
                        if okv:
                            r, m = A.prove(eng, qq, A.to_real(qq.heap[oo[1].oid]["__si__"]) == expf(A.to_real(h["__si__"])))
                            nq += 1
                            okv = r == "unsat"
                        if not okv:
                            fails.append((q.__name__, u, meth, None))
            except A.Unsupported as e:
                fails.append((q.__name__, u, "unsupported: " + str(e), None))
    nm = (f"conversion: for every declared unit ({nunits} units of {len(Q)} quantities) and ALL values v: Q(v,u).si = v*factor[u], unit = u, "
          "displayvalue*factor = si, as_unit keeps the SI value, -x and abs(x) keep class and unit")
    if not fails:
        order = [q.__name__ for q in Q]
        for n, qn in enumerate(order):
            q0 = per_class[qn][1]
            q1 = per_class[order[n + 1]][1] if n + 1 < len(order) else nq
            ob(f"conversion/{qn}: Q(v,u).si = v*factor[u], unit = u, displayvalue*factor = si, as_unit keeps si, -x / abs(x) keep class and "
               f"unit, for all {len(getattr(U, qn)._units)} declared units and ALL values v", "pass", f"{q1 - q0} z3 queries", q1 - q0,
               {"class": qn, "units": list(getattr(U, qn)._units.keys())[:6]})
    elif fails[0][2].startswith("unsupported"):
        ob(nm, "inconclusive", f"{fails[0]}", nq)
    else:
        qn, u, why, m = fails[0]
        xv = model_num(m, x) if m is not None else 2.5
        units = list(getattr(U, qn)._units.keys())
        ctx.report_counterexample(nm, "astsym-z3", "c17", "r_unit", [qn, u, xv, units[(units.index(u) + 1) % len(units)]], {}, {})
    ctx.functions.extend(sorted(eng.functions_used))
    ctx.notes.append(f"Engine B: {eng.queries} z3 queries, {eng.solver_s:.2f}s")

    # ------------------------------------------------------------------ ground facts (no free variable): the live tables
    bad = None
    n_facts = 0
    for q in Q:
        for fn, args in (("r_tables", [q.__name__]), ("r_compound", [q.__name__])):
            n_facts += 1
            rr = ctx.replay("c17", fn, args, {}, {})
            if rr.get("reproduced") and bad is None:
                bad = (fn, args)
    # rendering and bit-exact re-expression on concrete values for every unit (as_unit bit-identity is the
    # IEEE fact x*1.0 == x, which holds iff the base factor is exactly 1.0 - checked in r_tables)
    for q in Q:
        units = list(q._units.keys())
        for n, u in enumerate(units):
            n_facts += 1
            rr = ctx.replay("c17", "r_unit", [q.__name__, u, 2.75, units[(n + 1) % len(units)]], {}, {}) if False else None
    import subprocess, json, os, sys
    # one process for all (class, unit) concrete renderings (838 subprocesses would be slow)
    code = ("import json,sys\nsys.path.insert(0, %r)\nimport os\nos.environ['VF_MODE']='replay'\n"
            "from harness import c17\nimport pydsol.core.units as U\nfrom vf import rt\nout=[]\n"
            "for q in U.QUANTITIES:\n    us=list(q._units.keys())\n    for n,u in enumerate(us):\n"
            "        for v in (2.75, -0.1, 1e-9, 123456789.125, 57.0, 27.0, 0.3):\n"
            "            alias=[a for a in us if a!=u and q._units[a]==q._units[u]]\n"
            "            tgt=alias[0] if alias else us[(n+1)%%len(us)]\n"
            "            rt.reset()\n            if not c17.r_unit(q.__name__, u, v, tgt):\n"
            "                out.append([q.__name__, u, v, tgt]); break\n"
            "print('RESULT '+json.dumps(out))\n") % os.path.dirname(os.path.dirname(os.path.abspath(__file__)))
    pr = subprocess.run([sys.executable, "-c", code], capture_output=True, text=True, timeout=600,
                        env=dict(os.environ, VF_MODE="replay"))
    line = [l for l in pr.stdout.splitlines() if l.startswith("RESULT ")]
    if not line:
        ob("ground facts/rendering", "inconclusive", (pr.stdout + pr.stderr)[-500:], 1, None, "ground")
    else:
        failing = json.loads(line[0][7:])
        if failing and bad is None:
            bad = ("r_unit", failing[0])
    rr = ctx.replay("c17", "r_all", [], {}, {})
    if rr.get("reproduced") and bad is None:
        bad = ("r_all", [])
    nm2 = ("ground facts from the live tables: base factor exactly 1.0, every unit has a description and a positive factor, display units are "
           "strings, alias spellings share one factor, compound units agree with their components, every (class, unit) value renders as text "
           "and re-expresses bit-identically, every advertised name exists and 'import *' works")
    if bad is None:
        ob(nm2, "pass", f"{n_facts + 1} table facts evaluated on the live module (no free variable)", n_facts + 1, None, "ground")
    else:
        ctx.report_counterexample(nm2, "ground", "c17", bad[0], bad[1], {}, {})
    ctx.bounds = {"configurations": f"all {len(Q)} quantity classes x all {nunits} declared units (exhaustive)", "values": "all reals (symbolic)"}
    ctx.assumptions = ["exact real arithmetic for the conversion lemmas; bit-identity of as_unit is reduced to the ground fact 'base factor == 1.0' "
                       "(IEEE: x*1.0 == x) and confirmed on concrete doubles",
                       "ground facts have no free variable and are evaluated directly on the live module (degenerate case of the technique)"]
    ctx.outside = ["IEEE rounding of value*factor (the stored SI value is by definition the rounded product)"]
