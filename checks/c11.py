"""C11 - simulation statistics honour warm-up and replication end.  Engine A + inline worker."""
from vf.driver import Cond


def run(ctx):
    import pydsol.core.statistics as st
    import pydsol.core.simulator as sm
    for cls in (st.SimCounter, st.SimTally, st.SimWeightedTally, st.SimPersistent):
        for m in ("__init__", "notify", "listen_to", "_fire_events"):
            ctx.source_hash(getattr(cls, m))
    for f in (sm.DEVSSimulator.initialize, sm.Simulator.warmup, sm.SimulatorWorkerThread.run, sm.DEVSSimulator._run):
        ctx.source_hash(f)
    q = ctx.tier == "quick"
    conds = []
    for kind in ("counter", "tally", "weighted", "persistent"):
        for pk, pname in ((0, "pause by stop() from a handler"), (1, "pause by a bounded run")):
            conds.append(Cond(f"{kind}/K=2/times 0..4, warm-up and end symbolic, optional {pname}", "c11", "h_schedule",
                              {"VF_STAT": kind, "VF_K": 2, "VF_VMAX": 3, "VF_PAUSEKIND": pk}, 900 if q else 3000))
        if not q:
            conds.append(Cond(f"{kind}/K=3", "c11", "h_schedule", {"VF_STAT": kind, "VF_K": 3, "VF_VMAX": 2, "VF_PAUSEKIND": 0}, 3000))
    ctx.crosshair(conds)
    ctx.bounds = {"schedule": "K=2 (quick) / 3 observation events, times 0..4 (before, at and after warm-up and replication end, ties), "
                              "priorities MIN/NORMAL, warm-up 0..end, end 1..3, pause at any event or none: all symbolic",
                  "values": "concrete per slot (ints, floats incl. repeats, (weight, value) pairs incl. a zero weight)"}
    ctx.assumptions = ["inline worker, virtual clock, narrowed bare except; floats as exact reals",
                       "observation priorities are MIN or NORMAL: the warm-up event (MAX) precedes them at the same instant, as the property states",
                       "warm-up time <= replication end (the property speaks of the warm-up 'when the run reaches it')"]
    ctx.outside = ["observation events scheduled with MAX priority at the warm-up instant", "symbolic observation values (C09/C10 own the arithmetic)"]
