"""C04 - simulator lifecycle (part 1: command sequences at quiescence, incl. commands issued
from handlers).  Engine A + inline worker."""
import itertools

from vf.driver import Cond


def _conds(tier):
    conds = []

    def c(L, fix, inner=0, timeout=600):
        # a bounded run as second command is split by the range of its bound
        ranges = [(0, 6)]
        if len(fix) >= 2 and fix[1] in "45":
            ranges = [(0, 2), (3, 4), (5, 6)]
        for lo, hi in ranges:
            env = {"VF_L": L, "VF_FIXCMD": fix, "VF_INNER": inner, "VF_ARGLO": lo, "VF_ARGHI": hi}
            conds.append(Cond(f"cmds/L={L}/prefix={fix or '-'}{'/handler-issued-command' if inner else ''}"
                              + (f"/bound={lo}..{hi}" if len(ranges) > 1 else ""), "c04", "h_cmds", env, timeout))

    if tier == "quick":
        c(2, "")
        for x in "01234567":
            c(3, "0" + x)
        for x in "1245":
            c(2, "0" + x, inner=1)
    else:
        c(2, "", timeout=1800)
        for x, y in itertools.product("01234567", repeat=2):
            c(3, x + y, timeout=1800)
        for x, y in itertools.product("1245", "01234567"):
            c(4, "0" + x + y, timeout=2400)
        for x in "1245":
            c(2, "0" + x, inner=1, timeout=1800)
        for x, y in itertools.product("12", "1267"):
            c(3, "0" + x + y, inner=1, timeout=2400)
    return conds


def run(ctx):
    import pydsol.core.simulator as sm
    D, S = sm.DEVSSimulator, sm.Simulator
    for f in (S.initialize, D.initialize, S.cleanup, S._check_start if hasattr(S, "_check_start") else S._start_impl,
              S._start_impl, S.start, S.step, S.stop, S._stop_impl, S.run_up_to, S.run_up_to_including,
              S.end_replication, D.end_replication, D._run, D._step_impl, S.warmup, sm.SimulatorWorkerThread.run,
              sm.SimulatorWorkerThread.cleanup):
        ctx.source_hash(f)
    ctx.bounds = {
        "commands": "alphabet {initialize, start, step, stop, run_up_to(a), run_up_to_including(a), end_replication, "
                    "cleanup}; quick: every sequence of length 2, every sequence of length 3 that starts with initialize; "
                    "thorough: every sequence of length 3 and every sequence initialize + (start|step|bounded run) + 2 more; arguments 0..6 and the warm-up "
                    "time 0..5 symbolic",
        "handler-issued": "initialize followed by start/step/run_up_to(_including) during which the handler of the first "
                          "event issues one symbolic command (all kinds except cleanup)",
        "model": "events at 1,2,2,4 (one with maximum priority), replication 0..5",
    }
    ctx.assumptions = [
        "inline worker from the live AST: every command runs to quiescence before the next one (part 1 of the property); "
        "overlap of a command with the run thread's own transitions (part 2: stop during natural end, start during "
        "stopping) is NOT decided by this check - see DESIGN.md",
        "reference protocol automaton written from the RunState/ReplicationState docstrings and the property text",
        "virtual clock; bare except of SimEvent.execute narrowed; replay uses real threads and checks threading.enumerate()",
    ]
    ctx.outside = ["interleavings of a caller thread with the run thread (pre-emption inside commands)",
                   "cleanup() or initialize() issued from inside a handler while running (terminating strategies)",
                   "end_replication() issued from a handler that runs inside step() (wakes the run thread while the caller is active)"]
    ctx.crosshair(_conds(ctx.tier))
