"""C04 - simulator lifecycle.  Part 1: command sequences at quiescence, incl. commands issued from handlers
(Engine A + inline worker, harness/c04.py).  Part 2: a command that overlaps the run thread's own transitions
(Engine A + sequentialiser generated from the live source, harness/c04b.py, vf/seqthreads.py)."""
import itertools

from vf.driver import Cond


def _conds(tier):
    conds = []

    def c(L, fix, inner=0, timeout=600):
        # a bounded run as second command is split by the range of its bound
        ranges = [(0, 6)]
        if len(fix) >= 2 and fix[1] in "45":
            ranges = [(0, 2), (3, 4), (5, 6)]
        for lo, hi in ranges:
            env = {"VF_L": L, "VF_FIXCMD": fix, "VF_INNER": inner, "VF_ARGLO": lo, "VF_ARGHI": hi}
            conds.append(Cond(f"cmds/L={L}/prefix={fix or '-'}{'/handler-issued-command' if inner else ''}"
                              + (f"/bound={lo}..{hi}" if len(ranges) > 1 else ""), "c04", "h_cmds", env, timeout))

    if tier == "quick":
        c(2, "")
        for x in "01234567":
            c(3, "0" + x)
        for x in "1245":
            c(2, "0" + x, inner=1)
    else:
        c(2, "", timeout=1800)
        for x, y in itertools.product("01234567", repeat=2):
            c(3, x + y, timeout=1800)
        for x, y in itertools.product("1245", "01234567"):
            c(4, "0" + x + y, timeout=2400)
        for x in "1245":
            c(2, "0" + x, inner=1, timeout=1800)
        for x, y in itertools.product("12", "1267"):
            c(3, "0" + x + y, inner=1, timeout=2400)
    return conds


def _overlap_conds(tier):
    """part 2: a command overlapping the run thread's transitions (harness/c04b.py, sequentialiser)"""
    conds = []
    q = tier == "quick"
    VMAXI = 48
    # (scenario, PMAX of the last command, v-chunks, bound of bounded runs (-1 symbolic 1..3), warm-up (-1 symbolic 0..2), all leads w?)
    if q:
        scen = [("start,stop", 7, 4, -1, 0, False), ("runto,stop", 7, 4, 1, 0, False), ("runto,start", 12, 6, 1, 0, False)]
    else:
        # sized from a measured run (16 cores): about 35 min for the whole thorough tier
        scen = [("start,stop", 7, 8, -1, 0, True), ("runto,stop", 7, 8, -1, 0, False), ("runto,start", 12, 8, -1, 2, False),
                ("start,start", 12, 4, -1, 0, False), ("start,stop,start", 12, 4, -1, 0, False)]
    # a run thread that makes no progress while the middle command (a stop) completes: the stop gives up after its one-second
    # wait and the simulator is left in STOPPING with the run thread still busy; the last command overlaps that
    stalled = [("start,stop,runto", 12, 1, 2)] if q else [("start,stop,runto", 12, -1, 2)]
    for sc, pmax, arg, warm in stalled:
        for lo, hi in ((0, 10), (11, 21), (22, 32), (33, 43), (44, 54), (55, 65), (66, 74)):
            # richer model here (events at 1, 2, 2, replication 0..3: the run thread executes 74 statements): a bound that is
            # ignored for more than the one iteration in flight shows as two or more events beyond it
            env = {"VF_SCEN": sc, "VF_STALLS": "010", "VF_VMID": 1, "VF_VMIDHI": 74, "VF_TIMES": "1,2,2", "VF_END": 3, "VF_VLO": 0, "VF_VHI": 0, "VF_PMAX": pmax, "VF_WMAX": 50,
                   "VF_WSMALL": 3, "VF_ARG": arg, "VF_WARM": warm, "VF_MIDLO": lo, "VF_MIDHI": hi}
            conds.append(Cond(f"overlap/{sc}/run thread stalled while the stop completes, {lo}..{hi} statements into its run/"
                              f"pre-emption after <= {pmax} statements of the last command/lead 0..3 or unbounded"
                              + ("" if arg < 0 else f"/bound={arg}") + ("/warm-up symbolic" if warm < 0 else ""),
                              "c04b", "h_overlap", env, 900 if q else 3000))
    for sc, pmax, chunks, arg, warm, allw in scen:
        step = (VMAXI + chunks) // chunks
        for lo in range(0, VMAXI + 1, step):
            hi = min(VMAXI, lo + step - 1)
            env = {"VF_SCEN": sc, "VF_VLO": lo, "VF_VHI": hi, "VF_PMAX": pmax, "VF_WMAX": 50, "VF_ARG": arg, "VF_WARM": warm}
            if not allw:
                env["VF_WSMALL"] = 3
            conds.append(Cond(f"overlap/{sc}/run thread {lo}..{hi} statements ahead/pre-emption after <= {pmax} statements of the "
                              f"last command/lead " + ("any" if allw else "0..3 or unbounded")
                              + ("" if arg < 0 else f"/bound={arg}") + ("/warm-up symbolic" if warm < 0 else ""),
                              "c04b", "h_overlap", env, 900 if q else 3000))
    return conds


def _listener_conds(tier):
    """commands issued by listeners (harness/c04.py:h_listener)"""
    names = ["STARTING", "START", "STOPPING", "STOP", "TIME_CHANGED", "START_REPLICATION", "END_REPLICATION", "WARMUP"]
    tops = {1: "start", 2: "step", 4: "run_up_to", 5: "run_up_to_including"}
    conds = []
    q = tier == "quick"
    for et, nm in enumerate(names):
        for top in ((1, 2) if q else (1, 2, 4, 5)):
            conds.append(Cond(f"listener of {nm}_EVENT issues a command during {tops[top]}", "c04", "h_listener",
                              {"VF_LISTEN": et, "VF_TOP": top}, 900 if q else 3000))
    if q:
        for et in (1, 3, 4):
            conds.append(Cond(f"listener of {names[et]}_EVENT issues a command during run_up_to", "c04", "h_listener",
                              {"VF_LISTEN": et, "VF_TOP": 4}, 900))
    return conds


def run(ctx):
    import pydsol.core.simulator as sm
    D, S = sm.DEVSSimulator, sm.Simulator
    for f in (S.initialize, D.initialize, S.cleanup, S._check_start if hasattr(S, "_check_start") else S._start_impl,
              S._start_impl, S.start, S.step, S.stop, S._stop_impl, S.run_up_to, S.run_up_to_including,
              S.end_replication, D.end_replication, D._run, D._step_impl, S.warmup, sm.SimulatorWorkerThread.run,
              sm.SimulatorWorkerThread.cleanup):
        ctx.source_hash(f)
    ctx.bounds = {
        "commands": "alphabet {initialize, start, step, stop, run_up_to(a), run_up_to_including(a), end_replication, "
                    "cleanup}; quick: every sequence of length 2, every sequence of length 3 that starts with initialize; "
                    "thorough: every sequence of length 3 and every sequence initialize + (start|step|bounded run) + 2 more; arguments 0..6 and the warm-up "
                    "time 0..5 symbolic",
        "handler-issued": "initialize followed by start/step/run_up_to(_including) during which the handler of the first "
                          "event issues one symbolic command (all kinds except cleanup)",
        "model": "events at 1,2,2,4 (one with maximum priority), replication 0..5",
    }
    ctx.bounds["listener-issued"] = (
        "a listener of one of the eight notification types issues one command (start, step, stop, run_up_to(a), "
        "run_up_to_including(a); kind and argument symbolic) the first time it is notified, during start / step (quick: also "
        "run_up_to for three types; thorough: all four top-level commands); warm-up time and bound symbolic; quiescent oracle of part 2")
    ctx.bounds["overlap (part 2)"] = (
        "scenario = initialize, then commands from {start, stop, run_up_to(b), run_up_to_including(b)}; before the LAST command the "
        "run thread is v statements into its transition (v = 0..48: any position from 'just started' to 'terminated'), the caller "
        "is pre-empted after p statements of the command (p = 0..7 for stop, 0..12 for start/bounded runs: every statement up to "
        "its polling loop), the run thread then executes w statements (quick: 0..3 or as far as it can go; thorough: any), then "
        "fair round-robin to quiescence; v, p, w, the bound b (1..3) and the warm-up time are symbolic integers; model: one event "
        "at 1 plus the warm-up event, replication 0..2; quick: start/stop, run_up_to/stop, run_up_to/start and start/stop(stalled run "
        "thread)/run_up_to on a richer model; thorough: any lead for start/stop, symbolic bounds, plus start/start and start/stop/start")
    ctx.assumptions = [
        "part 1 - inline worker from the live AST: every command runs to quiescence before the next one",
        "part 2 - sequentialiser: SimulatorWorkerThread.run, DEVSSimulator._run and Simulator.start/_start_impl/stop/_stop_impl/"
        "run_up_to/run_up_to_including/end_replication are rewritten from their live source into generators that yield before every "
        "statement (statement-level atomicity: one Python statement is one step; pre-emption INSIDE a statement, e.g. between the "
        "evaluation of a condition and the branch, is not modelled); the wait on the wake-up Event is a loop on a flag; sleep() is a "
        "50 ms tick of a virtual clock (the 'wait at most one second' loops end after 20 polls); exactly one pre-emption of the caller "
        "inside the last command, everything else is a fair round-robin schedule; counterexamples are re-enacted on the REAL "
        "threaded simulator by gating both threads on line events (sys.settrace) in the logged statement order - only what "
        "reproduces there is reported",
        "reference protocol automaton written from the RunState/ReplicationState docstrings and the property text",
        "virtual clock; bare except of SimEvent.execute narrowed; replay uses real threads and checks threading.enumerate()",
    ]
    ctx.outside = ["schedules with more than one pre-emption inside a command, pre-emption inside a statement, more than one caller thread",
                   "end_replication(), step(), initialize() and cleanup() overlapping a running run thread",
                   "a stop() admitted while the state is still STARTING (only reachable from a second caller thread or from a listener of "
                   "STARTING / START_REPLICATION inside start()): whether it must prevent the start is not decided",
                   "cleanup() or initialize() issued from inside a handler while running (terminating strategies)",
                   "end_replication() issued from a handler that runs inside step() (wakes the run thread while the caller is active)"]
    ctx.crosshair(_conds(ctx.tier) + _listener_conds(ctx.tier) + _overlap_conds(ctx.tier))
