"""C05 - fault containment.  Engine A + inline worker."""
import itertools

from vf.driver import Cond


def _conds(tier):
    conds = []

    def c(strategy, runmode, kinds, parents, vmax=3, priosym=0, fixfails=None, timeout=500, loglevel=-2):
        env = {"VF_KINDS": kinds, "VF_PARENTS": parents, "VF_STRATEGY": strategy, "VF_RUNMODE": runmode,
               "VF_VMAX": vmax, "VF_PRIOSYM": priosym, "VF_LOGLEVEL": loglevel}
        name = f"strategy={strategy}/{runmode}/prog[{kinds}|{parents}]/vmax={vmax}"
        if loglevel != -2:
            name += f"/log_level={loglevel}"
        if fixfails is not None:
            env["VF_FIXFAILS"] = fixfails
            name += f"/faults={fixfails}"
        conds.append(Cond(name, "c05", "h_fault", env, timeout))

    if tier == "quick":
        for st in (1, 2, 3):
            c(st, "start", "01", "-1,0")
            c(st, "steps", "01", "-1,0")
            c(st, "start", "00", "-1,-1")
            c(st, "bounded", "01", "-1,0", vmax=2)
        c(3, "steps", "00", "-1,-1")
        c(1, "start", "01", "-1,0", loglevel=0)       # set_error_strategy(strategy, log_level)
        c(2, "start", "00", "-1,-1", loglevel=10)
        c(3, "start", "01", "-1,0", loglevel=1)
        c(3, "start", "001", "-1,-1,0", fixfails="010")
        c(3, "start", "001", "-1,-1,0", fixfails="101")
        c(1, "start", "001", "-1,-1,0", fixfails="110")
    else:
        for st in (1, 2, 3):
            for rm in ("start", "steps", "bounded"):
                for kinds, parents in (("01", "-1,0"), ("00", "-1,-1"), ("02", "-1,0"), ("10", "-1,-1")):
                    c(st, rm, kinds, parents, priosym=1, timeout=2400)
                    if rm == "start":
                        c(st, rm, kinds, parents, timeout=2400, loglevel=1)
                for kinds, parents in (("001", "-1,-1,0"), ("012", "-1,0,0")):
                    for mask in itertools.product("01", repeat=3):
                        if rm == "bounded" and st == 2:
                            continue
                        c(st, rm, kinds, parents, vmax=3 if rm != "bounded" else 2, fixfails="".join(mask), timeout=2400)
    return conds


def run(ctx):
    import pydsol.core.simulator as sm
    import pydsol.core.simevent as se
    D, S = sm.DEVSSimulator, sm.Simulator
    for f in (D._run, D._step_impl, S.step, S.start, S._start_impl, S.set_error_strategy,
              sm.SimulatorWorkerThread.run, se.SimEvent.execute):
        ctx.source_hash(f)
    ctx.bounds = {
        "fault mask": "one symbolic bool per slot (every subset fails); K=2 fully symbolic, K=3 with the mask fixed per "
                      "condition (quick: 3 masks, thorough: all 8)",
        "strategies": "LOG_AND_CONTINUE, WARN_AND_CONTINUE, WARN_AND_PAUSE",
        "run modes": "start(); step() until nothing is left before the end, then start(); run_up_to_including(b) then start()",
        "program": "times/delays 0..3 symbolic, replication end symbolic, skeleton fixed per condition",
    }
    ctx.assumptions = [
        "inline worker from the live AST (sequential schedule); virtual clock; bare except of SimEvent.execute narrowed",
        "a failing handler does its normal work (recording, scheduling children) and then raises",
        "WARN_AND_END / WARN_AND_EXIT terminate the run and are outside the property",
    ]
    ctx.outside = ["programs with more than 3 slots", "faults inside listeners (pub/sub) rather than event handlers"]
    ctx.crosshair(_conds(ctx.tier))
    # ground obligations (no free variable, real threads): the handler fails with a BaseException-only type (the kind
    # sys.exit() / KeyboardInterrupt raise).  The symbolic runs cannot see this class of fault: the stub that narrows the
    # bare except of SimEvent.execute assumes exactly what is checked here.
    from vf.driver import Obligation
    n = 0
    for st in (1, 2, 3):
        for rm in ("start", "steps", "bounded"):
            for fails in ([True, False], [False, True]):
                env = {"VF_KINDS": "01", "VF_PARENTS": "-1,0", "VF_STRATEGY": st, "VF_RUNMODE": rm, "VF_VMAX": 3, "VF_PRIOSYM": 0,
                       "VF_LOGLEVEL": -2, "VF_FAULTBASE": 1}
                args = [[1, 1], [0, 0], fails, 3, 2 if rm == "bounded" else 0]
                r = ctx.replay("c05", "h_fault", args, {}, env)
                n += 1
                if r.get("reproduced"):
                    ctx.report_counterexample(f"handler fails with a BaseException-only type/strategy={st}/{rm}/faults={fails}", "ground",
                                              "c05", "h_fault", args, {}, env)
                    n = -1000
    if n > 0:
        ctx.add(Obligation("handlers failing with a BaseException-only type (like sys.exit / KeyboardInterrupt) are contained like any other "
                           "fault: 3 strategies x 3 run modes x 2 fault positions on the real threaded simulator", "pass", "ground",
                           f"{n} concrete runs (no free variable)", 0.0, n, None))
