"""C13 - seed updates depend only on stream name, seed and replication number.  Engine A."""
from vf.driver import Cond


def run(ctx):
    import pydsol.core.streams as st
    for f in (st.StreamUpdater.update_seeds, st.StreamSeedUpdater.update_seed, st.StreamSeedUpdater.__init__,
              st.SimpleStreamUpdater.update_seed, st.MersenneTwister.set_seed, st.MersenneTwister.seed):
        ctx.source_hash(f)
    if hasattr(st.SimpleStreamUpdater, "_hash_code"):
        ctx.source_hash(st.SimpleStreamUpdater._hash_code)
    q = ctx.tier == "quick"
    to = 600 if q else 2400
    conds = [Cond("simple/2-streams/two-hash-environments+listing-orders", "c13", "h_simple", {"VF_NS": 2}, to),
             Cond("simple/one-updater-reused-with-swapped-names", "c13", "h_reuse", {}, to),
             Cond("simple/negative-replication-refused-unchanged", "c13", "h_simple_refuse", {}, to),
             *[Cond(f"table/listed={m}/tables<={2 if q else 3}/replication -1..len+1", "c13", "h_table",
                    {"VF_TABMAX": 2 if q else 3, "VF_LISTED": m}, to) for m in ("00", "01", "10", "11")],
             Cond("ill-typed-replication-number-refused-unchanged", "c13", "h_illtyped", {}, to),
             Cond("updated stream restarts at the installed seed (after 0..2 draws; same replication twice; equal seeds)",
                  "c13", "h_draws", {}, to)]
    if not q:
        conds.append(Cond("simple/3-streams/two-hash-environments+listing-orders", "c13", "h_simple", {"VF_NS": 3}, to))
    ctx.crosshair(conds)
    ctx.bounds = {"names": "symbolic choice from a pool of 8 names (incl. the empty name and a pair colliding under Java's hashCode)", "seeds": "any int", "replication": "0..1000 (simple), -1..len+1 (table)",
                  "tables": "seed lists of <= 2 (quick) / 3 (thorough) symbolic ints, each stream listed or not (symbolic)",
                  "environment": "two independent symbolic tables for the built-in str hash, two listing orders"}
    ctx.assumptions = ["the built-in hash of a str is modelled as an arbitrary function of the string per process (injected into "
                       "the globals of pydsol.core.streams); equal strings have equal hashes inside one process",
                       "random.Random.seed (C) trusted; replay spawns child interpreters with PYTHONHASHSEED=1,2,77"]
    ctx.outside = ["names outside the pool (the dependence on the name goes through the hash environment, which is fully symbolic)", "custom fallback updaters"]
