"""C18 - input parameters.  Engine A (CrossHair on the real parameter classes)."""
from vf.driver import Cond


def run(ctx):
    import pydsol.core.parameters as pm
    import pydsol.core.model as md
    for cls in (pm.InputParameter, pm.InputParameterInt, pm.InputParameterFloat, pm.InputParameterStr,
                pm.InputParameterBool, pm.InputParameterQuantity, pm.InputParameterSelectionList, pm.InputParameterUnit):
        ctx.source_hash(cls.__init__)
        ctx.source_hash(cls.set_value)
    for f in (pm.InputParameterMap.add, pm.InputParameterMap.get, pm.InputParameterMap.remove, pm.InputParameter.extended_key,
              md.DSOLModel.set_parameter, md.DSOLModel.get_parameter, md.DSOLModel.add_parameter):
        ctx.source_hash(f)
    q = ctx.tier == "quick"
    na = 2 if q else 3
    to = 600 if q else 3000
    conds = []
    for fn in ("h_int", "h_float", "h_quantity"):
        na_fn = 2 if fn == "h_float" else na       # the float parameter is the expensive one: 2 attempts in both tiers
        for ro in ((0, 1) if fn == "h_float" else (-1,)):
            tag = "" if ro < 0 else f"/read_only={bool(ro)}"
            conds.append(Cond(f"{fn[2:]}/bounded/attempts={na_fn}{tag}", "c18", fn, {"VF_NA": na_fn, "VF_UNBOUNDED": 0, "VF_FIXRO": ro}, to))
            conds.append(Cond(f"{fn[2:]}/default-infinite-bounds/attempts={na_fn}{tag}", "c18", fn, {"VF_NA": na_fn, "VF_UNBOUNDED": 1, "VF_FIXRO": ro}, to))
    conds.append(Cond(f"str+bool/attempts={na}", "c18", "h_str_bool", {"VF_NA": na}, to))
    # 3 attempts on the selection list did not finish inside 3000 s: 2 attempts in both tiers
    conds.append(Cond("selection-list+unit/attempts=2", "c18", "h_selection", {"VF_NA": 2}, to))
    nadd = 3 if q else 4
    for rm in range(-1, nadd):
        conds.append(Cond(f"map/adds={nadd}/remove={'none' if rm < 0 else '#%d' % rm}", "c18", "h_map", {"VF_NADD": nadd, "VF_FIXRM": rm}, to))
    conds.append(Cond("model/set_parameter-then-get_parameter", "c18", "h_model", {}, to))
    ctx.crosshair(conds)
    ctx.bounds = {"attempts": f"{na} set_value attempts per parameter, each a symbolic choice among right-typed (symbolic int / float / "
                              "short str) and wrong-typed values (bool, None, NaN, other type), read_only symbolic",
                  "bounds": "symbolic finite bounds and default (constructor must refuse invalid combinations), and the default infinite bounds",
                  "trees": f"{3 if q else 4} add operations (key from a 2-key pool, priority 0..1, parent = root or an earlier map, map or int "
                           "parameter, the last one optionally with an out-of-range default), then one removal by extended key"}
    ctx.assumptions = ["dict keys are chosen from a pool through symbolic indices (symbolic str keys are concretised when hashed)",
                       "the extended key is taken relative to the map get()/remove() is called on (the root's own key is stripped)",
                       "isinstance semantics of Python: a bool is accepted where an int is declared"]
    ctx.outside = ["sequences longer than the attempt bound", "format strings / descriptions"]
