"""C08 - publish/subscribe.  Engine A (CrossHair on the real pubsub code)."""
from vf.driver import Cond

OPS = ["add", "remove", "rm_all", "rm_type", "rm_listener", "rm_both", "fire", "fire_timed"]
ACTS = ["add", "remove", "rm_all", "rm_type", "rm_listener", "rm_both", "fire"]


def _conds(tier):
    conds = []
    q = tier == "quick"
    maxs, nl, nt, to = (2, 3, 2, 600) if q else (3, 3, 2, 3000)
    for op in OPS:
        conds.append(Cond(f"one-step/{op}/types={nt}/listeners={nl}/subs<={maxs}", "c08", "h_step",
                          {"VF_OP": op, "VF_MAXS": maxs, "VF_NL": nl, "VF_NT": nt}, to))
    if q:
        # three listeners on ONE type: removals at every position of a longer list
        for op in ("remove", "rm_listener", "rm_both", "add"):
            conds.append(Cond(f"one-step/{op}/types=1/listeners=3/subs<=3", "c08", "h_step",
                              {"VF_OP": op, "VF_MAXS": 3, "VF_NL": 3, "VF_NT": 1}, to))
    for act in ACTS:
        conds.append(Cond(f"reentrant/{act}/types={nt}/listeners={nl}/subs<={maxs}", "c08", "h_reenter",
                          {"VF_ACT": act, "VF_MAXS": maxs, "VF_NL": nl, "VF_NT": nt}, to))
    if not q:
        for op in OPS:
            conds.append(Cond(f"one-step/{op}/types=3/listeners=3/subs<=2", "c08", "h_step",
                              {"VF_OP": op, "VF_MAXS": 2, "VF_NL": 3, "VF_NT": 3}, to))
            conds.append(Cond(f"one-step/{op}/types=2/listeners=4/subs<=2", "c08", "h_step",
                              {"VF_OP": op, "VF_MAXS": 2, "VF_NL": 4, "VF_NT": 2}, to))
    for single in (0, 1, 2):
        for timed in (0, 1):
            conds.append(Cond(f"payload/metadata={['a:int,b:str', 'a:int', 'empty-dict'][single]}/{'timed' if timed else 'plain'}",
                              "c08", "h_payload", {"VF_SINGLE": single, "VF_TIMED": timed}, to))
    conds.append(Cond("payload/non-dict", "c08", "h_nondict", {}, to))
    conds.append(Cond("payload/timestamp", "c08", "h_timestamp", {}, to))
    return conds


def run(ctx):
    import pydsol.core.pubsub as ps
    P = ps.EventProducer
    for f in (P.add_listener, P.remove_listener, P.remove_all_listeners, P.has_listeners, P.fire_event, P.fire,
              P.fire_timed_event, P.fire_timed, ps.Event.__init__, ps.TimedEvent.__init__):
        ctx.source_hash(f)
    ctx.bounds = {
        "one step": "arbitrary subscription state built by <=2 (quick) / <=3 (thorough) add_listener calls per type with "
                    "symbolic listener indices (duplicates included), 2 types x 3 listeners (thorough also 3x3, 2x4); one "
                    "operation (kind fixed per condition, all 8 kinds incl. the four remove_all forms) with symbolic "
                    "arguments; then a probe fire on every type",
        "re-entrancy": "one symbolic listener performs one symbolic action (7 kinds) inside notify(), depth 1",
        "payload": "metadata {a:int,b:str} and {a:int}; content = any subset of keys {a,b,c} with values from "
                   "{symbolic int, symbolic str, None, float}, check flag symbolic; non-dict payloads; int/float/None/str timestamps",
    }
    ctx.assumptions = ["the post-state of a step is judged by observable deliveries only (probe fire on every type and has_listeners())",
                       "listeners do not raise", "dict/list of CPython trusted"]
    ctx.outside = ["nesting depth > 1", "more than 3 types / 4 listeners",
                   "a declared key whose value is legitimately None for metadata type object/NoneType"]
    ctx.crosshair(_conds(ctx.tier))
