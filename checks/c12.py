"""C12 - random streams.  Engine A (protocol, model generator) + Engine B (ranges for all arguments)."""
import z3

from vf import astsym as A
from vf.driver import Cond, Obligation


class _RandomStub:
    def random(self):
        pass


def run(ctx):
    from pydsol.core.streams import MersenneTwister
    # ------------------------------------------------------------------ Engine B: draw kernels
    counter = {"n": 0}

    def hook_random(eng, path, obj, args, kwargs):
        counter["n"] += 1
        u = z3.Real(f"u{counter['n']}")
        path.pc.append(z3.And(u >= 0, u < 1))
        path.draws += 1
        path.log.append(u)
        return [(path, ("return", u))]

    eng = A.Engine(hooks={"_RandomStub.random": hook_random})

    def ob(name, verdict, detail="", queries=1, sample=None):
        return ctx.add(Obligation(name, verdict, "astsym-z3", detail, 0.0, queries, sample))

    lo, hi = z3.Ints("lo hi")

    def fresh():
        p = A.Path()
        rnd = A.new_obj(p, _RandomStub, {})
        obj = A.new_obj(p, MersenneTwister, {"_random": rnd, "_seed": z3.Int("seed"), "_original_seed": z3.Int("oseed")})
        return p, obj

    p, obj = fresh()
    p.pc.append(lo <= hi)
    c, f = eng.find_method(MersenneTwister, "next_int")
    ok, nq, npaths = True, 0, 0
    cex = None
    for q in A.summarize(eng, f, [lo, hi], self_obj=obj, defining_cls=c, path=p):
        npaths += 1
        if q.outcome[0] != "return" or q.draws < 1:
            ok = False
            continue
        v, u = A.to_z3(q.outcome[1]), q.log[0]
        r, m = A.prove(eng, q, z3.And(v >= lo, v <= hi) if z3.is_int(v) else z3.BoolVal(False))
        nq += 1
        if r != "unsat":
            ok = False
            if m is not None:
                cex = (m.eval(lo, model_completion=True).as_long(), m.eval(hi, model_completion=True).as_long())
    name = "next_int(lo,hi): an int with lo <= value <= hi for ALL ints lo <= hi and all reals 0 <= u < 1"
    if ok:
        ob(name, "pass", f"{nq} queries over {npaths} paths", nq, {"lemma": name})
    else:
        a, b = cex if cex else (0, 9)
        if abs(a) > 10 ** 6 or abs(b) > 10 ** 6:
            a, b = 0, 9
        ctx.report_counterexample(name, "astsym-z3", "c12", "r_int_range", [a, b], {}, {})
    for meth, claim in (("next_float", lambda v, u: z3.And(v >= 0, v < 1)), ("next_bool", lambda v, u: z3.BoolVal(z3.is_bool(v)))):
        p, obj = fresh()
        c, f = eng.find_method(MersenneTwister, meth)
        ok, nq = True, 0
        for q in A.summarize(eng, f, [], self_obj=obj, defining_cls=c, path=p):
            if q.outcome[0] != "return" or q.draws < 1:
                ok = False
                continue
            v = q.outcome[1]
            r, _ = A.prove(eng, q, claim(A.to_z3(v), q.log[0]))
            nq += 1
            ok = ok and r == "unsat"
        nm = f"{meth}: " + ("value in [0,1)" if meth == "next_float" else "a bool")
        if ok:
            ob(nm, "pass", f"{nq} queries", nq)
        else:
            ctx.report_counterexample(nm, "astsym-z3", "c12", "r_int_range", [0, 9], {}, {})
    ctx.functions.extend(sorted(eng.functions_used))
    ctx.notes.append(f"Engine B: {eng.queries} z3 queries, {eng.solver_s:.2f}s")

    # ------------------------------------------------------------------ Engine A: protocol
    q = ctx.tier == "quick"
    to = 600 if q else 3000
    scripts = ["FBfbFB", "FfRF", "SFRF", "FVFTF", "FSFRFF", "fVFbTfR", "FIB", "FIBfRFIB", "IVITI", "SsFf", "FfSfF", "FVFTRF", "SVFTRFF", "VFTSRF", "FVSTRF", "FVRTRF", "fvFstrf", "BVBTB", "BBVBTBB", "BSBRB"]
    if not q:
        scripts += ["IiVIiTI", "FBIVSFTFBI", "fFVvRrTtFf", "SFBIRFBI", "FFFRFFVFTF", "sSfFrRfF"]
    conds = []
    for s in scripts:
        conds.append(Cond(f"protocol[{s}]", "c12", "h_protocol", {"VF_SCRIPT": s, "VF_NU": max(4, sum(s.upper().count(c) for c in "FBI"))}, to))
    conds.append(Cond("protocol[FBfbRrFBfb]/same-seed-twins", "c12", "h_protocol",
                      {"VF_SCRIPT": "FBfbRrFBfb", "VF_NU": 8, "VF_SAMESEED": 1}, to))
    conds.append(Cond("protocol[FIB]/range=[5,5]", "c12", "h_protocol", {"VF_SCRIPT": "FIB", "VF_NU": 4, "VF_LO": 5, "VF_W": 0}, to))
    conds.append(Cond("protocol[IFI]/range=[-7,-3]", "c12", "h_protocol", {"VF_SCRIPT": "IFI", "VF_NU": 4, "VF_LO": -7, "VF_W": 4}, to))
    ctx.crosshair(conds)
    ctx.bounds = {"protocol": "operation skeletons over two streams (<=8 ops quick, <=10 thorough), seeds any int (0, negative, huge), "
                              "set_seed arguments symbolic, uniforms symbolic reals in [0,1) (from a 5-value grid incl. 0.0 and the "
                              "largest double below 1 when the script draws integers)",
                  "ranges": "next_int for ALL integer ranges lo<=hi and all real u in [0,1): unbounded, exact reals"}
    ctx.assumptions = ["random.Random replaced by a model automaton: seed(s) selects the sequence keyed by abs(s), random() yields the value "
                       "u(key, position), getstate/setstate round-trip; the Mersenne Twister itself (C) is trusted",
                       "exact reals: the product (hi-lo+1)*u is not rounded; for integer-valued n <= 2^53 the IEEE product cannot reach n "
                       "(single-multiplication lemma, DESIGN.md) - ranges wider than 2^53 are outside the IEEE-level claim"]
    ctx.outside = ["Mersenne Twister output and getstate/setstate internals", "seed=None (wall clock)", "IEEE rounding for ranges wider than 2^53"]
