"""C07 - end-to-end reproducibility.  Engine A: the per-process environment as symbolic variables, twin runs in one path."""
import ast
import glob
import os

from vf.driver import Cond, Obligation


def _set_iteration_scan(root):
    """variable-free fact: no pydsol core module iterates over a set (iteration order of a set of str/objects
    varies with hash randomisation and object addresses)"""
    setnames, offenders = set(), []
    files = sorted(glob.glob(os.path.join(root, "*.py")))
    trees = {}
    for f in files:
        tree = ast.parse(open(f, encoding="utf-8").read())
        trees[f] = tree
        for node in ast.walk(tree):
            tgt, val, ann = None, None, None
            if isinstance(node, ast.Assign) and len(node.targets) == 1:
                tgt, val = node.targets[0], node.value
            elif isinstance(node, ast.AnnAssign):
                tgt, val, ann = node.target, node.value, node.annotation
            if tgt is None:
                continue
            is_set = isinstance(val, (ast.Set, ast.SetComp)) or (isinstance(val, ast.Call) and getattr(val.func, "id", "") in ("set", "frozenset")) \
                or (ann is not None and ast.unparse(ann).lower().startswith(("set", "typing.set")))
            if is_set:
                setnames.add(tgt.attr if isinstance(tgt, ast.Attribute) else getattr(tgt, "id", ""))
    for f, tree in trees.items():
        for node in ast.walk(tree):
            its = []
            if isinstance(node, ast.For):
                its.append(node.iter)
            elif isinstance(node, (ast.ListComp, ast.SetComp, ast.DictComp, ast.GeneratorExp)):
                its.extend(g.iter for g in node.generators)
            for it in its:
                name = it.attr if isinstance(it, ast.Attribute) else getattr(it, "id", None)
                if isinstance(it, (ast.Set, ast.SetComp)) or name in setnames or \
                        (isinstance(it, ast.Call) and getattr(it.func, "id", "") in ("set", "frozenset")):
                    offenders.append(f"{os.path.basename(f)}:{node.lineno}")
    return sorted(setnames - {""}), offenders


def run(ctx):
    import pydsol.core as core
    import pydsol.core.pubsub as ps
    import pydsol.core.simevent as se
    import pydsol.core.eventlist as el
    import pydsol.core.streams as st
    import pydsol.core.simulator as sm
    for f in (ps.EventProducer.fire_event, ps.EventProducer.add_listener, se.SimEvent.__init__, el.EventListHeap.add,
              st.SimpleStreamUpdater.update_seed, st.MersenneTwister.next_int, sm.DEVSSimulator._run, sm.Simulator._start_impl):
        ctx.source_hash(f)
    names, offenders = _set_iteration_scan(os.path.dirname(core.__file__))
    if offenders:
        ctx.add(Obligation("no module iterates over a set", "inconclusive", "ground",
                           f"iteration over a set at {offenders}: the set-order environment would have to be modelled", 0.0, 1))
    else:
        ctx.add(Obligation("variable-free fact: no pydsol core module iterates over a set (set-typed names: " + ", ".join(names) + ")",
                           "pass", "ground", "AST scan of the live modules", 0.0, 1, {"set_names": names}))
    q = ctx.tier == "quick"
    conds = []
    for order in ((0, 2) if q else (0, 2)):
        for rnr in ((0, 1) if q else (0, 1, 3)):
            conds.append(Cond(f"twin-runs/listeners=2/subscription-order={'01' if order == 0 else '10'}/replication={rnr}", "c07", "h_twin",
                              {"VF_L": 2, "VF_VMAX": 2 if q else 3, "VF_ORDER": order, "VF_RNR": rnr}, 900 if q else 3000))
    if not q:
        for order in range(6):
            conds.append(Cond(f"twin-runs/listeners=3/order#{order}", "c07", "h_twin", {"VF_L": 3, "VF_VMAX": 2, "VF_ORDER": order, "VF_RNR": 1}, 3000))
    ctx.crosshair(conds)
    ctx.bounds = {"environment": "start value of the SimEvent id counter: any int 0..10^6, independently in both runs (symbolic); str hash: two "
                                 "independent symbolic values; wall clock: two different concrete readings; pause point: symbolic in run A, none in run B",
                  "model": "2 generator events firing to 2 (thorough also 3) listeners, each drawing a delay from one shared seeded stream and scheduling a "
                           "follow-up event; a SimTally observing the draws; subscription order and replication number fixed per condition",
                  "symbolic": "time of the second generator event, the uniforms delivered by the stream, the pause point, the counter offsets"}
    ctx.assumptions = ["random.Random replaced by the model generator (equal seed and position give equal values; the Mersenne Twister is trusted)",
                       "inline worker, virtual clock; the wall clock is read through pydsol.core.simulator.time only",
                       "set iteration order is not modelled: an AST scan of the live modules shows that no set is iterated (re-checked on every run)",
                       "replay: three child interpreters with different PYTHONHASHSEED, different amounts of prior SimEvent creation, different pause points"]
    ctx.outside = ["real Mersenne-Twister output across Python versions", "OS-level nondeterminism", "more than 3 listeners / 2 generator events"]
