"""C07 - end-to-end reproducibility.  Engine A: the per-process environment as symbolic variables, twin runs in one path."""
import ast
import glob
import os

from vf.driver import Cond, Obligation


def _set_iteration_scan(root):
    """variable-free fact: no pydsol core module lets the iteration order of a set escape (that order varies with
    hash randomisation and object addresses).  Flags: a for loop / comprehension over a set, and list(), tuple(),
    iter(), enumerate(), next(iter()) or * unpacking applied to a set; a name counts as a set when it is
    assigned a set display, set()/frozenset(), a set comprehension, a set operation on such names, or is
    annotated as a set (module level, attributes, and locals per function)."""
    offenders, allnames = [], set()
    files = sorted(glob.glob(os.path.join(root, "*.py")))

    def is_set_expr(e, names):
        if isinstance(e, (ast.Set, ast.SetComp)):
            return True
        if isinstance(e, ast.Call) and getattr(e.func, "id", "") in ("set", "frozenset"):
            return True
        if isinstance(e, ast.Call) and isinstance(e.func, ast.Attribute) and e.func.attr in (
                "union", "intersection", "difference", "symmetric_difference", "copy") and is_set_expr(e.func.value, names):
            return True
        if isinstance(e, ast.BinOp) and isinstance(e.op, (ast.Sub, ast.BitOr, ast.BitAnd, ast.BitXor)):
            return is_set_expr(e.left, names) or is_set_expr(e.right, names)
        n = e.attr if isinstance(e, ast.Attribute) else getattr(e, "id", None)
        return n in names

    for f in files:
        tree = ast.parse(open(f, encoding="utf-8").read())
        names = set()
        changed = True
        while changed:                      # names assigned from set expressions (fixed point)
            changed = False
            for node in ast.walk(tree):
                tgt, val, ann = None, None, None
                if isinstance(node, ast.Assign) and len(node.targets) == 1:
                    tgt, val = node.targets[0], node.value
                elif isinstance(node, ast.AnnAssign):
                    tgt, val, ann = node.target, node.value, node.annotation
                if tgt is None:
                    continue
                n = tgt.attr if isinstance(tgt, ast.Attribute) else getattr(tgt, "id", None)
                if n is None or n in names:
                    continue
                if (val is not None and is_set_expr(val, names)) or \
                        (ann is not None and ast.unparse(ann).lower().startswith(("set", "typing.set"))):
                    names.add(n)
                    changed = True
        allnames |= names
        for node in ast.walk(tree):
            its = []
            if isinstance(node, ast.For):
                its.append(node.iter)
            elif isinstance(node, (ast.ListComp, ast.SetComp, ast.DictComp, ast.GeneratorExp)):
                its.extend(g.iter for g in node.generators)
            elif isinstance(node, ast.Call) and getattr(node.func, "id", "") in ("list", "tuple", "iter", "enumerate", "next") and node.args:
                its.append(node.args[0])
            elif isinstance(node, ast.Starred):
                its.append(node.value)
            elif isinstance(node, ast.Call) and isinstance(node.func, ast.Attribute) and node.func.attr == "pop" and not node.args:
                if is_set_expr(node.func.value, names):
                    offenders.append(f"{os.path.basename(f)}:{node.lineno}")
            for it in its:
                if is_set_expr(it, names):
                    offenders.append(f"{os.path.basename(f)}:{node.lineno}")
    return sorted(allnames), sorted(set(offenders))


def run(ctx):
    import pydsol.core as core
    import pydsol.core.pubsub as ps
    import pydsol.core.simevent as se
    import pydsol.core.eventlist as el
    import pydsol.core.streams as st
    import pydsol.core.simulator as sm
    for f in (ps.EventProducer.fire_event, ps.EventProducer.add_listener, se.SimEvent.__init__, el.EventListHeap.add,
              st.SimpleStreamUpdater.update_seed, st.MersenneTwister.next_int, sm.DEVSSimulator._run, sm.Simulator._start_impl):
        ctx.source_hash(f)
    names, offenders = _set_iteration_scan(os.path.dirname(core.__file__))
    if offenders:
        # the order of a set escapes somewhere: let real child interpreters (different hash seeds, different amounts of
        # prior allocation, 6 listeners one of which unsubscribes) show whether runs differ; otherwise inconclusive
        ob = ctx.report_counterexample(f"no module lets the iteration order of a set escape (found at {offenders})", "ground", "c07", "h_twin",
                                       [[0, 1], 0, 3, 1, 2, 1, 0, 0, 0, [0, 0], [0, 0], 0, 0, [0, 1], -1], {}, {"VF_L": 2, "VF_VMAX": 2})
        if ob.verdict == "inconclusive":
            ob.detail = f"iteration over a set at {offenders}: the set-order environment would have to be modelled; the child-process replay showed no difference"
    else:
        ctx.add(Obligation("variable-free fact: no pydsol core module iterates over a set (set-typed names: " + ", ".join(names) + ")",
                           "pass", "ground", "AST scan of the live modules", 0.0, 1, {"set_names": names}))
    q = ctx.tier == "quick"
    conds = []
    for order in ((0, 2) if q else (0, 2)):
        for rnr in ((0, 1) if q else (0, 1, 3)):
            for pk in (0, 1):
                conds.append(Cond(f"twin-runs/listeners=2/subscription-order={'01' if order == 0 else '10'}/replication={rnr}/"
                                  f"{'pause by stop() from a handler' if pk == 0 else 'pause by a bounded run'}", "c07", "h_twin",
                                  {"VF_L": 2, "VF_VMAX": 2 if q else 3, "VF_ORDER": order, "VF_RNR": rnr, "VF_PAUSEKIND": pk}, 900 if q else 3000))
    if not q:
        for order in range(6):
            conds.append(Cond(f"twin-runs/listeners=3/order#{order}", "c07", "h_twin", {"VF_L": 3, "VF_VMAX": 2, "VF_ORDER": order, "VF_RNR": 1, "VF_PAUSEKIND": order % 2}, 3000))
    ctx.crosshair(conds)
    ctx.bounds = {"environment": "start value of the SimEvent id counter: any int 0..10^6, independently in both runs (symbolic); str hash: two "
                                 "independent symbolic values; wall clock: two different concrete readings; pause point: symbolic in run A, none in run B",
                  "model": "2 generator events firing to 2 (thorough also 3) listeners plus one that unsubscribes itself at its first notification, each drawing a delay from one shared seeded stream and scheduling a "
                           "follow-up event; a SimTally observing the draws; subscription order and replication number fixed per condition",
                  "symbolic": "time of the second generator event, the uniforms delivered by the stream, the pause point, the counter offsets"}
    ctx.assumptions = ["random.Random replaced by the model generator (equal seed and position give equal values; the Mersenne Twister is trusted)",
                       "inline worker, virtual clock; the wall clock is read through pydsol.core.simulator.time only",
                       "set iteration order is not modelled: an AST scan of the live modules shows that no set is iterated (re-checked on every run)",
                       "replay: three child interpreters with different PYTHONHASHSEED, different amounts of prior SimEvent creation, different pause points"]
    ctx.outside = ["real Mersenne-Twister output across Python versions", "OS-level nondeterminism", "more than 3 listeners / 2 generator events"]
