"""C14 - draws are a pure function of parameters and stream output, within the support.
Engine B (astsym summaries of constructors and draw(), parameters and uniforms symbolic) +
Engine A (purity / isolation / re-pointing with scripted streams)."""
import math

import z3

from vf import astsym as A
from vf.driver import Cond, Obligation
from vf.statlemma import model_num


def _stub_stream_class():
    from pydsol.core.streams import StreamInterface

    class _StubStream(StreamInterface):
        def next_bool(self): pass
        def next_float(self): pass
        def next_int(self, lo, hi): pass
        def seed(self): pass
        def original_seed(self): pass
        def set_seed(self, seed): pass
        def reset(self): pass
        def save_state(self): pass
        def restore_state(self, state): pass
    return _StubStream


def run(ctx):
    import pydsol.core.distributions as D
    import pydsol.core.utils as UT
    Stub = _stub_stream_class()
    cnt = {"n": 0}

    def fresh(name, sort=A.R):
        cnt["n"] += 1
        return z3.Const(f"{name}{cnt['n']}", sort)

    def hook_next_float(eng, path, obj, args, kwargs):
        u = fresh("u")
        path.pc.append(z3.And(u >= 0, u < 1))
        path.log.append(("u", u))
        return [(path, ("return", u))]

    def hook_next_int(eng, path, obj, args, kwargs):
        k = fresh("k", A.I)
        path.pc.append(z3.And(k >= A.to_z3(args[0]), k <= A.to_z3(args[1])))
        path.log.append(("k", k))
        return [(path, ("return", k))]

    def hook_positive(eng, path, obj, args, kwargs):
        u = fresh("up")
        path.pc.append(z3.And(u > 0, u < 1))
        path.log.append(("up", u))
        return [(path, ("return", u))]

    def hook_gamma_draw(eng, path, obj, args, kwargs):
        g = fresh("g")
        path.pc.append(g > 0)
        path.log.append(("gamma", g))
        return [(path, ("return", g))]

    def hook_erf_inv(eng, path, obj, args, kwargs):
        y = A.to_real(args[0])
        out = []
        for p2, bad in eng.fork_bool(path, z3.Or(y < -1, y > 1)):
            if bad:
                out.append((p2, ("__raise__", "ValueError")))
            else:
                t = A.UF["erf_inv"](y)
                p2.axioms.add("erf_inv")
                # erf(erf_inv(y)) == y; registering t as an erf argument instantiates erf's strict monotonicity
                # against the arguments already seen on this path (the truncation bounds)
                et = eng.uf(p2, "erf", t)
                p2.pc.append(z3.Implies(z3.And(y > -1, y < 1), et == y))
                out.append((p2, t))
        return out

    base_hooks = {"_StubStream.next_float": hook_next_float, "_StubStream.next_int": hook_next_int,
                  "erf_inv": hook_erf_inv}
    hooks_contract = dict(base_hooks)
    hooks_contract["Distribution._next_positive_float"] = hook_positive     # helper summarised by its contract
    hooks_comp = dict(hooks_contract)
    hooks_comp["DistGamma.draw"] = hook_gamma_draw                            # inner gamma draws by their contract

    def ob(name, verdict, detail="", queries=1, sample=None):
        return ctx.add(Obligation(name, verdict, "astsym-z3", detail, 0.0, queries, sample))

    R_, I_ = "R", "I"
    KNOWN_P0 = any(k.startswith("C14:DistGeometric:draw-raised-ZeroDivisionError:p=0") for k in ctx.known)
    # (class, [(param, sort)], documented domain, extra bound for loops, support, engine-hooks)
    SPECS = [
        ("DistBernoulli", [("p", R_)], lambda p: z3.And(p >= 0, p <= 1), None, lambda v, p: z3.Or(v == 0, v == 1), hooks_contract),
        ("DistBinomial", [("n", I_), ("p", R_)], lambda n, p: z3.And(n > 0, p >= 0, p <= 1), lambda n, p: n <= 3,
         lambda v, n, p: z3.And(v >= 0, v <= n), hooks_contract),
        ("DistConstant", [("c", R_)], lambda c: z3.BoolVal(True), None, lambda v, c: v == c, hooks_contract),
        ("DistDiscreteUniform", [("lo", I_), ("hi", I_)], lambda lo, hi: lo < hi, None, lambda v, lo, hi: z3.And(v >= lo, v <= hi), hooks_contract),
        ("DistExponential", [("mean", R_)], lambda m: m > 0, None, lambda v, m: v >= 0, hooks_contract),
        ("DistErlang", [("scale", R_), ("k", I_)], lambda s, k: z3.And(s > 0, k > 0), lambda s, k: z3.Or(k <= 3, k >= 10),
         lambda v, s, k: v >= 0, hooks_comp),
        ("DistGamma", [("shape", R_), ("scale", R_)], lambda a, b: z3.And(a > 0, b > 0), None, lambda v, a, b: v >= 0, hooks_contract),
        # p == 0 (inside the documented domain) makes draw() divide by log(1) = 0: recorded known finding
        # C14:DistGeometric/DistNegBinomial:draw-raised-ZeroDivisionError:p=0, carved out of the draw lemma here
        ("DistGeometric", [("p", R_)], lambda p: z3.And(p >= 0, p <= 1), (lambda p: p > 0) if KNOWN_P0 else None, lambda v, p: v >= 0, hooks_contract),
        ("DistNegBinomial", [("s", I_), ("p", R_)], lambda s, p: z3.And(s > 0, p >= 0, p <= 1),
         (lambda s, p: z3.And(s <= 2, p > 0)) if KNOWN_P0 else (lambda s, p: s <= 2),
         lambda v, s, p: v >= 0, hooks_contract),
        ("DistNormal", [("mu", R_), ("sigma", R_)], lambda m, s: s > 0, None, lambda v, m, s: z3.BoolVal(True), hooks_contract),
        ("DistLogNormal", [("mu", R_), ("sigma", R_)], lambda m, s: s > 0, None, lambda v, m, s: v > 0, hooks_contract),
        ("DistNormalTrunc", [("mu", R_), ("sigma", R_), ("lo", R_), ("hi", R_)], None, None,
         lambda v, m, s, lo, hi: z3.And(v >= lo, v <= hi), hooks_contract),
        ("DistBeta", [("a1", R_), ("a2", R_)], lambda a, b: z3.And(a > 0, b > 0), None, lambda v, a, b: z3.And(v >= 0, v <= 1), hooks_comp),
        ("DistPearson5", [("alpha", R_), ("beta", R_)], lambda a, b: z3.And(a > 0, b > 0), None, lambda v, a, b: v > 0, hooks_comp),
        ("DistPearson6", [("a1", R_), ("a2", R_), ("beta", R_)], lambda a, b, c: z3.And(a > 0, b > 0, c > 0), None,
         lambda v, a, b, c: v > 0, hooks_comp),
        ("DistPoisson", [("rate", R_)], lambda r: r > 0, None, lambda v, r: v >= 0, hooks_contract),
        ("DistTriangular", [("lo", R_), ("mode", R_), ("hi", R_)], lambda lo, m, hi: z3.And(lo <= m, m <= hi, lo != hi), None,
         lambda v, lo, m, hi: z3.And(v >= lo, v <= hi), hooks_contract),
        ("DistUniform", [("lo", R_), ("hi", R_)], lambda lo, hi: hi > lo, None, lambda v, lo, hi: z3.And(v >= lo, v <= hi), hooks_contract),
        ("DistWeibull", [("alpha", R_), ("beta", R_)], lambda a, b: z3.And(a > 0, b > 0), None, lambda v, a, b: v >= 0, hooks_contract),
    ]
    unroll = 2 if ctx.tier == "quick" else 3
    total_q, total_s = 0, 0.0
    engines = []
    for cname, plist, domain, bound, support, hooks in SPECS:
        cls = getattr(D, cname)
        eng = A.Engine(unroll=unroll, hooks=hooks, solver_timeout_ms=1500 if ctx.tier == "quick" else 10000)
        eng.prove_timeout_ms = 8000 if ctx.tier == "quick" else 120000
        engines.append(eng)
        params = [z3.Real(n) if srt == R_ else z3.Int(n) for n, srt in plist]
        p0 = A.Path()
        stream = A.new_obj(p0, Stub, {})
        problems, unknown, npaths, cuts = [], [], 0, 0
        try:
            built = eng.apply(p0, cls, [stream] + params, {}, None)
        except A.Unsupported as e:
            ob(f"{cname}: constructor + draw", "inconclusive", "construct not encodable: " + str(e))
            continue
        # ---- constructor: refuses exactly the parameter sets outside the documented domain
        ok_paths = []
        for q, v in built:
            if A._is_raise(v):
                if domain is not None:
                    r, m = A.prove(eng, q, z3.Not(domain(*params)))
                    if r == "sat":
                        problems.append(("constructor rejects valid parameters (" + str(v[1]) + ")", m, q))
                    elif r != "unsat":
                        unknown.append("constructor/raise")
            else:
                if domain is not None:
                    r, m = A.prove(eng, q, domain(*params))
                    if r == "sat":
                        problems.append(("constructor accepts invalid parameters", m, q))
                    elif r != "unsat":
                        unknown.append("constructor/accept")
                ok_paths.append((q, v))
        # ---- draw: no raising path, value in the support, uniforms consumed are a function of the path
        c_d, f_d = eng.find_method(cls, "draw")
        for q, dobj in ok_paths:
            if bound is not None:
                q.pc.append(bound(*params))
                if not eng.feasible(q):
                    continue
            q.log = []
            try:
                outs = eng.call_method(q, dobj, "draw", [], {})
            except A.Unsupported as e:
                unknown.append("draw not encodable: " + str(e))
                continue
            for q2, o in outs:
                npaths += 1
                if o[0] == "unwind" or (o[0] == "raise" and o[1] == "UNWIND"):
                    cuts += 1
                    continue
                if o[0] == "raise":
                    r, m = A.prove(eng, q2, False)
                    if r == "sat":
                        problems.append((f"draw raises {o[1]}", m, q2))
                    elif r != "unsat":
                        unknown.append(f"draw/raise {o[1]}")
                    continue
                v = o[1]
                if not A.is_sym(v):
                    if isinstance(v, (int, float)):
                        v = A.to_z3(v)
                    else:
                        problems.append((f"draw returns {type(v).__name__}", None, q2))
                        continue
                r, m = A.prove(eng, q2, support(v, *params))
                if r == "sat":
                    problems.append(("draw outside the support", m, q2))
                elif r != "unsat":
                    unknown.append("draw/support")
        total_q += eng.queries
        total_s += eng.solver_s
        name = (f"{cname}: constructor refuses exactly the parameters outside the documented domain; draw() never raises and "
                f"stays in the support for ALL parameters in the domain and ALL uniforms in [0,1)")
        sample = {"class": cname, "constructor_paths": len(built), "draw_paths": npaths, "unwinding_cuts": cuts}
        if problems:
            why, m, q = problems[0]
            pv = []
            for (n, srt), sym in zip(plist, params):
                if m is None:
                    pv.append(1.0 if srt == R_ else 1)
                else:
                    pv.append(model_num(m, sym) if srt == R_ else m.eval(sym, model_completion=True).as_long())
            us = [model_num(m, t) for k, t in q.log if k in ("u", "up")] if m is not None else []
            if "constructor" in why:
                ctx.report_counterexample(name, "astsym-z3", "c14", "r_construct", [cname, pv, "rejects" in why], {}, {})
            else:
                # positive-helper uniforms are > 0 by contract; deliver them after a leading 0.0 so that the
                # real helper (if present) skips it and an unprotected log() sees it
                ctx.report_counterexample(name, "astsym-z3", "c14", "r_draw", [cname, pv, us or [0.0, 0.5]], {}, {})
        elif unknown:
            ob(name, "inconclusive", f"solver unknown / not encodable: {unknown[:3]}", eng.queries, sample)
        else:
            ob(name, "pass", f"{len(built)} constructor paths, {npaths} draw paths ({cuts} cut at unwinding depth {unroll}), {eng.queries} z3 queries",
               eng.queries, sample)
        ctx.functions.extend(sorted(eng.functions_used))

    # ---- the helper's contract (used as a summary above): first non-zero uniform, in (0,1)
    if hasattr(D.Distribution, "_next_positive_float"):
        eng = A.Engine(unroll=3, hooks=base_hooks)
        p0 = A.Path()
        stream = A.new_obj(p0, Stub, {})
        dobj = A.new_obj(p0, D.DistExponential, {"_stream": stream, "_mean": z3.Real("mean")})
        okh, nqh = True, 0
        for q, o in eng.call_method(p0, dobj, "_next_positive_float", [], {}):
            if o[0] in ("unwind",) or (o[0] == "raise" and o[1] == "UNWIND"):
                continue
            if o[0] != "return":
                okh = False
                continue
            us = [t for k, t in q.log if k == "u"]
            r, _ = A.prove(eng, q, z3.And(o[1] > 0, o[1] < 1, o[1] == us[-1], *[t == 0 for t in us[:-1]]))
            nqh += 1
            okh = okh and r == "unsat"
        ob("Distribution._next_positive_float contract: returns the first non-zero uniform of the stream, in (0,1), skipping only zeros",
           "pass" if okh else "inconclusive", f"{nqh} queries (loop unrolled 3x)", nqh)
        total_q += eng.queries
        total_s += eng.solver_s
    # ---- DistGamma.draw > 0 (contract used for Beta / Pearson / Erlang k>=10)
    eng = A.Engine(unroll=unroll, hooks=hooks_contract, solver_timeout_ms=1500 if ctx.tier == "quick" else 10000)
    eng.prove_timeout_ms = 8000 if ctx.tier == "quick" else 120000
    p0 = A.Path()
    stream = A.new_obj(p0, Stub, {})
    a, b = z3.Reals("shape scale")
    built = eng.apply(p0, D.DistGamma, [stream, a, b], {}, None)
    okg, unk, nqg = True, 0, 0
    for q, v in built:
        if A._is_raise(v):
            continue
        for q2, o in eng.call_method(q, v, "draw", [], {}):
            if o[0] != "return":
                continue
            r, _ = A.prove(eng, q2, A.to_real(o[1]) > 0)
            nqg += 1
            if r == "sat":
                okg = False
            elif r != "unsat":
                unk += 1
    nm = "DistGamma.draw contract: strictly positive for all shape, scale > 0 (summary used for the inner gamma draws of Beta, Pearson5/6, Erlang k>=10)"
    if okg and not unk:
        ob(nm, "pass", f"{nqg} queries", nqg)
    elif not okg:
        ctx.report_counterexample(nm, "astsym-z3", "c14", "r_draw", ["DistGamma", [0.5, 1.0], [0.0, 0.0, 0.5]], {}, {})
    else:
        ob(nm, "inconclusive", f"{unk} solver unknowns", nqg)
    total_q += eng.queries
    total_s += eng.solver_s
    if ctx.obligations:
        ctx.obligations[0].solver_s = total_s
    ctx.notes.append(f"Engine B: {total_q} z3 queries, {total_s:.1f}s solver time; axioms: " +
                     "; ".join(f"{k}: {A.AXIOMS[k]}" for k in ("log", "exp", "pow", "sqrt", "erf")) +
                     "; erf_inv: uninterpreted with erf(erf_inv(y)) == y on (-1,1)")

    # ------------------------------------------------------------------ Engine A: purity / isolation / re-pointing
    from harness import c14 as H
    conds = []
    for ci, (cname, plist) in enumerate(H.CASES):
        conds.append(Cond(f"purity+isolation+repointing/{cname}", "c14", "h_purity", {"VF_CASE": ci, "VF_NU": 2 if ctx.tier == "quick" else 3},
                          900 if ctx.tier == "quick" else 3000))
    conds.append(Cond(f"in-domain extreme parameter sets ({len(H.EXTREME)} sets, IEEE arithmetic): a draw terminates within {H.BUDGET} uniforms, "
                      "does not raise and lies in the support", "c14", "h_extreme", {}, 900 if ctx.tier == "quick" else 3000))
    ctx.crosshair(conds)
    ctx.bounds = {"parameters": "symbolic over the whole documented domain (Binomial n<=3, NegBinomial s<=2, Erlang k<=3 or k>=10)",
                  "uniforms": "symbolic reals in [0,1) including exactly 0.0",
                  "loops": f"rejection / product loops unrolled {unroll} iterations; deeper iterations are cut (assumed-exit) and counted",
                  "purity": "scripted streams: 2-3 leading uniforms from a 5-value grid incl. 0.0 and the largest double below 1 (symbolic indices), "
                            "then a fixed equidistributed tail; 1-3 draws; 1-3 parameter sets per class"}
    ctx.assumptions = ["exact real arithmetic (a draw exceeding a bound by one ulp is not decided)",
                       "libm functions as axiomatised uninterpreted functions; erf_inv by its specification erf(erf_inv(y)) = y (its 4.5e-8 accuracy is outside the claim)",
                       "Distribution._next_positive_float and the inner DistGamma.draw are replaced by their contracts, each proved separately",
                       "the stream delivers values in [0,1) (contract of StreamInterface.next_float)"]
    ctx.outside = ["IEEE rounding / overflow for extreme parameters", "rejection loops beyond the unrolling depth (incl. the 1000-try fallback of gamma)",
                   "accuracy of erf_inv (DistNormalTrunc clamps within 1e-6 relative)"]
