"""C02 - DEVS execution: exactly once, in order.  Engine A + inline worker."""
import itertools

from vf.driver import Cond


def _skeletons(k):
    """all (kinds, parents) skeletons of k slots: slot 0 is a root, slot j>0 has parent -1 or < j"""
    out = []
    for kinds in itertools.product("012", repeat=k):
        for parents in itertools.product(*[[-1] + list(range(j)) for j in range(k)]):
            out.append(("".join(kinds), ",".join(str(p) for p in parents)))
    return out


def _conds(tier):
    conds = []

    def c(kinds, parents, clock="int", special=0, fixcb=None, fn="h_run", timeout=300, vmax=4, fixct=None):
        env = {"VF_KINDS": kinds, "VF_PARENTS": parents, "VF_CLOCK": clock, "VF_SPECIAL": special, "VF_VMAX": vmax}
        name = f"{fn}[{kinds}|{parents}]/{clock}{'/nan-inf' if special else ''}"
        if fixcb is not None:
            env["VF_FIXCB"] = fixcb
            name += f"/cb={fixcb}"
        if fixct is not None:
            env["VF_FIXCT"] = fixct
            name += f"/ct={fixct}"
        conds.append(Cond(name, "c02", fn, env, timeout))

    if tier == "quick":
        for cb in (-1, 0, 1, 2):
            c("012", "-1,-1,0", fixcb=cb)
        for cb in (0, 1):
            c("110", "-1,0,1", fixcb=cb)
        c("201", "-1,0,0", fixcb=0)
        c("100", "-1,-1,-1", fixcb=0, fixct=1, vmax=3)
        c("01", "-1,0", clock="float", special=1)
        c("10", "-1,-1", clock="float", special=1)
        c("12", "-1,0", clock="float", special=1)
        c("01", "-1,0", clock="duration", vmax=2)
        c("10", "-1,0", clock="duration", vmax=2)
        c("01", "-1,-1", clock="duration", vmax=1, special=1)
        c("01", "-1,0", fn="h_run2")
    else:
        pick = {"000", "222", "012", "120", "011", "221"}          # (nine skeleton kinds took 51 min; six keep every kind and tie pattern)
        for kinds, parents in [sk for sk in _skeletons(3) if sk[0] in pick]:
            for cb in (-1, 0, 1, 2):
                if parents.count("-1") == 3 and cb >= 0:
                    for ct in (0, 1, 2):
                        c(kinds, parents, fixcb=cb, fixct=ct, timeout=1500)
                else:
                    c(kinds, parents, fixcb=cb, timeout=1500)
        for kinds, parents in _skeletons(2):
            c(kinds, parents, clock="float", special=1, timeout=900)
            c(kinds, parents, clock="duration", vmax=2, timeout=1500)      # (vmax=3 did not finish for two "now" events)
            c(kinds, parents, clock="duration", vmax=1, special=1, timeout=900)
            c(kinds, parents, fn="h_run2", timeout=900)
        for kinds, parents in (("012", "-1,-1,0"), ("110", "-1,0,1"), ("201", "-1,0,0"), ("011", "-1,0,0")):
            for cb in (-1, 0, 1, 2):
                c(kinds, parents, clock="float", fixcb=cb, timeout=1200)
    return conds


def run(ctx):
    import pydsol.core.simulator as sm
    import pydsol.core.simevent as se
    import pydsol.core.eventlist as el
    D = sm.DEVSSimulator
    for f in (D.schedule_event, D.schedule_event_now, D.schedule_event_rel, D.schedule_event_abs,
              D.cancel_event, D._run, D.initialize, sm.Simulator.initialize, sm.Simulator.start,
              sm.Simulator._start_impl, sm.SimulatorWorkerThread.run, se.SimEvent.execute,
              el.EventListHeap.add, el.EventListHeap.remove, el.EventListHeap.pop_first):
        ctx.source_hash(f)
    ctx.bounds = {
        "program": "table of K slots; skeleton (kind abs/rel/now and parent of every slot) fixed per condition; "
                   "K=3 on the int clock (quick: 4 skeletons; thorough: 9 kind patterns x all 6 parent structures x cancelling slot), K=2 on float and Duration clocks",
        "symbolic": "times/delays -1..4 (negative delay / time before the clock = illegal request), priorities "
                    "{1,5,10}, one cancellation (who, target) incl. already executed / refused targets, replication "
                    "length 1..5; float clock: halves, plus NaN and +inf request times; Duration: 0.5 s grid, plus NaN and +inf Durations",
    }
    ctx.assumptions = [
        "inline worker generated from the live AST of SimulatorWorkerThread.run (sequential schedule: the worker runs to quiescence when woken)",
        "virtual clock instead of time.time()/sleep in pydsol.core.simulator",
        "bare 'except:' of SimEvent.execute narrowed to 'except Exception:' in the symbolic processes",
        "floats as exact reals; Duration values from a concrete grid",
        "counterexamples are replayed with the real threaded worker",
    ]
    ctx.outside = ["programs with more than 3 slots / 2 levels, more than one cancellation on K=3",
                   "handlers that issue simulator commands (C04)"]
    ctx.crosshair(_conds(ctx.tier))
