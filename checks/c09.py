"""C09 - Tally and Counter.  Engine B (astsym -> z3, inductive) + Engine A for the
event-publishing variants."""
import math
import time

import z3

from vf import astsym as A
from vf.driver import Cond, Obligation
from vf.statlemma import model_num, model_int


def hook_normaldist(eng, path, obj, args, kwargs):
    """statistics.NormalDist(mu, sigma): only inv_cdf is used; stub object"""
    o = A.new_obj(path, _NormalDistStub, {})
    return [(path, o)]


class _NormalDistStub:
    def inv_cdf(self, p):
        pass


def hook_inv_cdf(eng, path, obj, args, kwargs):
    p = A.to_real(args[0])
    out = []
    for p2, bad in eng.fork_bool(path, z3.Or(p <= 0, p >= 1)):
        if bad:
            out.append((p2, ("raise", "StatisticsError")))
        else:
            out.append((p2, ("return", eng.uf(p2, "inv_cdf", p))))
    return out


def ghost(real_count=False):
    # real_count: the count is a REAL >= 1 (step lemma only): every integer count is covered
    # (superset) and z3's nonlinear real procedure decides the identities in milliseconds where
    # the mixed int/real version times out.  A model with a fractional count cannot be replayed
    # and is reported as inconclusive by the realisation step (explicit data sets have integer
    # counts).  The getter lemmas need integer counts (n > 1 <=> n >= 2) and use Int.
    n = z3.Real("nr") if real_count else z3.Int("n")
    p1, p2, p3, p4, lo, hi = z3.Reals("p1 p2 p3 p4 lo hi")
    return n, (p1, p2, p3, p4), lo, hi


def central(n, ps):
    p1, p2, p3, p4 = ps
    nr = z3.ToReal(n) if z3.is_int(n) else n
    mu = p1 / nr
    c2 = p2 - p1 * p1 / nr
    c3 = p3 - 3 * mu * p2 + 2 * nr * mu * mu * mu
    c4 = p4 - 4 * mu * p3 + 6 * mu * mu * p2 - 3 * nr * mu * mu * mu * mu
    return nr, mu, c2, c3, c4


def inv_fields(n, ps, lo, hi):
    nr, mu, c2, c3, c4 = central(n, ps)
    from pydsol.core.statistics import Tally
    return A.StateFields(A.ctor_defaults(Tally, "t"),
                         {"_n": n, "_sum": ps[0], "_m1": mu, "_m2": c2, "_m3": c3, "_m4": c4, "_min": lo, "_max": hi, "_name": "t"})


def realizable(n, ps, lo, hi):
    """facts true of the ghost state of every real data set (needed by the getters only)"""
    nr, mu, c2, c3, c4 = central(n, ps)
    return z3.And(n >= 1, lo <= hi, nr * lo <= ps[0], ps[0] <= nr * hi, c2 >= 0, c4 >= 0,
                  z3.Implies(c2 == 0, z3.And(c3 == 0, c4 == 0, lo == hi)),
                  z3.Implies(lo == hi, c2 == 0), nr * c4 >= c2 * c2)


def data_state(k):
    """ghost state of an explicit data set d1..dk (realisable by construction): for replays"""
    ds = [z3.Real(f"d{i}") for i in range(k)]
    ps = tuple(sum((d ** e for d in ds), z3.RealVal(0)) for e in (1, 2, 3, 4))
    lo, hi = ds[0], ds[0]
    for d in ds[1:]:
        lo = z3.If(d < lo, d, lo)
        hi = z3.If(d > hi, d, hi)
    return ds, z3.RealVal(k), ps, lo, hi


def run(ctx):
    from pydsol.core.statistics import Tally, Counter
    eng = A.Engine(hooks={"NormalDist": hook_normaldist, "_NormalDistStub.inv_cdf": hook_inv_cdf})
    t0 = time.time()

    def ob(name, verdict, detail="", sample=None, queries=1):
        return ctx.add(Obligation(name, verdict, "astsym-z3", detail, 0.0, queries, sample))

    def realize_and_replay(name, build_query, kmax=3, extra=None):
        """find a concrete data set d1..dk violating the same claim and replay it on the real Tally"""
        for k in range(1, kmax + 1):
            got = build_query(k)
            if got is None:
                continue
            data, xtra = got
            return ctx.report_counterexample(name, "astsym-z3", "c09", "r_tally", [data, xtra], {}, {})
        return ob(name, "inconclusive", "inductive step has a model but no data set of <=%d observations "
                  "reproduces it: invariant too weak or unreachable pre-state" % kmax)

    # ------------------------------------------------------------------ Tally: register step lemma
    n, ps, lo, hi = ghost(real_count=True)
    x = z3.Real("x")
    c_reg, f_reg = eng.find_method(Tally, "register")

    def run_register(nv, psv, lov, hiv, pre):
        p = A.Path()
        obj = A.new_obj(p, Tally, inv_fields(nv, psv, lov, hiv))
        p.pc.append(pre)
        return obj, A.summarize(eng, f_reg, [x], self_obj=obj, defining_cls=c_reg, path=p)

    obj, paths = run_register(n, ps, lo, hi, z3.And(n >= 1))
    post = inv_fields(n + 1, tuple(p + x ** (e + 1) for e, p in enumerate(ps)),
                      z3.If(x < lo, x, lo), z3.If(x > hi, x, hi))
    bad_fields = []
    nq = 0
    for q in paths:
        if q.outcome[0] != "return":
            r, m = A.prove(eng, q, False)
            nq += 1
            if r != "unsat":
                bad_fields.append(("raises-" + str(q.outcome[1]), r, m))
            continue
        for f, want in post.items():
            if f == "_name":
                continue
            got = q.heap[obj.oid][f]
            g, w = A.to_z3(got), A.to_z3(want)
            if z3.is_int(g) != z3.is_int(w):
                g, w = A.to_real(g), A.to_real(w)
            r, m = A.prove(eng, q, g == w)
            nq += 1
            if r != "unsat":
                bad_fields.append((f, r, m))
    sample = {"lemma": "Inv(n,p1..p4,lo,hi) and register(x)  ==>  Inv(n+1, p_k + x^k, min(lo,x), max(hi,x))",
              "paths": len(paths), "queries": nq}
    if not bad_fields:
        ob("tally/step-lemma(register preserves the moment invariant, any history length)", "pass",
           f"{nq} queries unsat over {len(paths)} paths", sample, nq)
    elif any(r == "unknown" for _, r, _ in bad_fields):
        ob("tally/step-lemma", "inconclusive", "solver unknown on field " + bad_fields[0][0], sample, nq)
    else:
        fld = bad_fields[0][0]

        def q_real(k):
            ds, nk, psk, lok, hik = data_state(k)
            o2, paths2 = run_register(nk, psk, lok, hik, z3.BoolVal(True))
            postk = inv_fields(nk + 1, tuple(p + x ** (e + 1) for e, p in enumerate(psk)),
                               z3.If(x < lok, x, lok), z3.If(x > hik, x, hik))
            for q in paths2:
                if q.outcome[0] != "return":
                    r, m = A.prove(eng, q, False)
                else:
                    viol = []
                    for f, want in postk.items():
                        if f != "_name":
                            g, w = A.to_z3(q.heap[o2.oid][f]), A.to_z3(want)
                            if z3.is_int(g) != z3.is_int(w):
                                g, w = A.to_real(g), A.to_real(w)
                            viol.append(g != w)
                    # keep the data small and well separated so the difference is visible in doubles
                    bounds = z3.And(*[z3.And(d >= -8, d <= 8) for d in ds], x >= -8, x <= 8)
                    r, m = A.prove(eng, q, z3.Not(z3.And(z3.Or(*viol), bounds)))
                if r == "sat":
                    return [model_num(m, d) for d in ds] + [model_num(m, x)], None
            return None
        realize_and_replay(f"tally/step-lemma[{fld}]", q_real)

    # ------------------------------------------------------------------ base case and initialize
    n, ps, lo, hi = ghost()
    p = A.Path()
    res = eng.apply(p, Tally, ["t"], {}, None)
    fresh_obj = res[0][1]
    fresh_fields = dict(res[0][0].heap[fresh_obj.oid])
    pb = res[0][0]
    base_paths = A.summarize(eng, f_reg, [x], self_obj=fresh_obj, defining_cls=c_reg, path=pb)
    want1 = inv_fields(z3.RealVal(1), (x, x * x, x * x * x, x * x * x * x), x, x)
    okb, nqb = True, 0
    for q in base_paths:
        for f, want in want1.items():
            if f == "_name":
                continue
            got = q.heap[fresh_obj.oid][f]
            if not A.is_sym(got) and isinstance(got, float) and got != got:
                okb = False
                continue
            g, w = A.to_z3(got), A.to_z3(want)
            if z3.is_int(g) != z3.is_int(w):
                g, w = A.to_real(g), A.to_real(w)
            r, m = A.prove(eng, q, g == w)
            nqb += 1
            okb = okb and r == "unsat" and q.outcome[0] == "return"
    if okb:
        ob("tally/base-case(first observation after construction establishes the invariant)", "pass",
           f"{nqb} queries", {"state": {k: repr(v) for k, v in fresh_fields.items()}}, nqb)
    else:
        ctx.report_counterexample("tally/base-case", "astsym-z3", "c09", "r_tally", [[1.5, -2.0], None], {}, {})
    # initialize() from an arbitrary state gives the fresh state
    p = A.Path()
    obj = A.new_obj(p, Tally, inv_fields(n, ps, lo, hi))
    p.pc.append(n >= 1)
    c_i, f_i = eng.find_method(Tally, "initialize")
    okinit = True
    for q in A.summarize(eng, f_i, [], self_obj=obj, defining_cls=c_i, path=p):
        for f, want in fresh_fields.items():
            got = q.heap[obj.oid].get(f)
            same = (got == want) or (isinstance(got, float) and got != got and want != want)
            if A.is_sym(got) or not same:
                okinit = False
    if okinit:
        ob("tally/initialize-forgets-everything", "pass", "all fields equal to a freshly constructed Tally", None, 1)
    else:
        ctx.report_counterexample("tally/initialize", "astsym-z3", "c09", "r_tally", [[1.0, 2.0], None], {}, {})

    # ------------------------------------------------------------------ rejected observations
    import decimal
    for label, bad in (("nan", math.nan), ("str", "abc"), ("none", None), ("decimal", decimal.Decimal("1.5"))):
        p = A.Path()
        obj = A.new_obj(p, Tally, inv_fields(n, ps, lo, hi))
        p.pc.append(n >= 1)
        before = dict(p.heap[obj.oid])
        okr = True
        for q in A.summarize(eng, f_reg, [bad], self_obj=obj, defining_cls=c_reg, path=p):
            if q.outcome[0] != "raise" or q.outcome[1] not in ("TypeError", "ValueError"):
                okr = False
            for f, v in before.items():
                if q.heap[obj.oid][f] is not v:
                    okr = False
        if okr:
            ob(f"tally/rejects-{label}-without-state-change", "pass", "every path raises TypeError/ValueError with all fields untouched", None, 1)
        else:
            ctx.report_counterexample(f"tally/rejects-{label}", "astsym-z3", "c09", "r_reject", [[1.0, 2.5], label], {}, {})

    # ------------------------------------------------------------------ getters
    biased = z3.Bool("biased")
    alpha = z3.Real("alpha")
    nr, mu, c2, c3, c4 = central(n, ps)
    G0 = (n, ps, lo, hi)

    def spec(getter, q, arg, G=None):
        """returns (nan_condition, predicate(value) -> z3 bool) from the documented definitions"""
        n, ps, lo, hi = G if G is not None else G0
        nr, mu, c2, c3, c4 = central(n, ps)
        if getter == "n":
            return z3.BoolVal(False), lambda v: v == n
        if getter == "sum":
            return z3.BoolVal(False), lambda v: v == ps[0]
        if getter == "min":
            return z3.BoolVal(False), lambda v: v == lo
        if getter == "max":
            return z3.BoolVal(False), lambda v: v == hi
        if getter == "mean":
            return n < 1, lambda v: v == mu
        var = z3.If(arg, c2 / nr, c2 / (nr - 1))
        few_var = z3.If(arg, n < 1, n < 2)
        if getter == "variance":
            return few_var, lambda v: v == var
        if getter == "stdev":
            return few_var, lambda v: z3.And(v >= 0, v * v == var)
        sig = eng.uf(q, "sqrt", c2 / nr)
        if getter == "skewness":
            g1 = (c3 / nr) / ((c2 / nr) * sig)
            corr = eng.uf(q, "sqrt", nr * (nr - 1)) / (nr - 2)
            return z3.Or(z3.If(arg, n < 2, n < 3), c2 == 0), lambda v: v == z3.If(arg, g1, g1 * corr)
        kb = (c4 / nr) / ((c2 / nr) * (c2 / nr))
        s2 = c2 / (nr - 1)
        if getter == "kurtosis":
            return (z3.Or(z3.If(arg, n < 3, n < 4), c2 == 0),
                    lambda v: v == z3.If(arg, kb, c4 / (nr - 1) / (s2 * s2)))
        if getter == "excess_kurtosis":
            return (z3.Or(z3.If(arg, n < 3, n < 4), c2 == 0),
                    lambda v: v == z3.If(arg, kb - 3, (nr - 1) / ((nr - 2) * (nr - 3)) * ((nr + 1) * (kb - 3) + 6)))
        raise KeyError(getter)

    getters = [("n", None), ("sum", None), ("min", None), ("max", None), ("mean", None), ("variance", biased),
               ("stdev", biased), ("skewness", biased), ("kurtosis", biased), ("excess_kurtosis", biased)]
    for g, arg in getters:
        c_g, f_g = eng.find_method(Tally, g)
        p = A.Path()
        obj = A.new_obj(p, Tally, inv_fields(n, ps, lo, hi))
        p.pc.append(realizable(n, ps, lo, hi))
        gpaths = A.summarize(eng, f_g, [] if arg is None else [arg], self_obj=obj, defining_cls=c_g, path=p)
        problems = []
        nq = 0
        for q in gpaths:
            nan_cond, pred = spec(g, q, arg)
            if q.outcome[0] != "return":
                r, m = A.prove(eng, q, False)
                nq += 1
                if r != "unsat":
                    problems.append(("raises-" + str(q.outcome[1]), r, m, q))
                continue
            v = q.outcome[1]
            if not A.is_sym(v) and isinstance(v, float) and v != v:
                r, m = A.prove(eng, q, nan_cond)           # NaN only when undefined
                nq += 1
                if r != "unsat":
                    problems.append(("nan-although-defined", r, m, q))
            else:
                r, m = A.prove(eng, q, z3.And(z3.Not(nan_cond), pred(A.to_z3(v) if z3.is_int(A.to_z3(v)) and g == "n" else A.to_real(v))))
                nq += 1
                if r != "unsat":
                    problems.append(("value", r, m, q))
        name = f"tally/getter-{g}(equals its definition on every invariant state; NaN exactly when undefined; never raises)"
        if not problems:
            ob(name, "pass", f"{nq} queries over {len(gpaths)} paths", {"getter": g, "paths": len(gpaths)}, nq)
            continue
        kind, r, m, q = problems[0]
        if r == "unknown":
            ob(name, "inconclusive", f"solver unknown ({kind})", None, nq)
            continue

        def q_real(k, g=g, arg=arg, f_g=f_g, c_g=c_g):
            ds, nk, psk, lok, hik = data_state(k)
            # replay oracle is the exact definition in harness/c09.py; the solver only has to
            # supply a data set on which the live getter's summary misbehaves
            p2 = A.Path()
            o2 = A.new_obj(p2, Tally, inv_fields(nk, psk, lok, hik))
            p2.pc.append(z3.And(*[z3.And(d >= -4, d <= 4) for d in ds]))
            Gk = (nk, psk, lok, hik)
            for qq in A.summarize(eng, f_g, [] if arg is None else [arg], self_obj=o2, defining_cls=c_g, path=p2):
                # ask for a data set on which THIS path violates the getter lemma
                if qq.outcome[0] != "return":
                    claim = False
                else:
                    nan_k, pred_k = spec(g, qq, arg, Gk)
                    vv = qq.outcome[1]
                    if not A.is_sym(vv) and isinstance(vv, float) and vv != vv:
                        claim = nan_k
                    else:
                        claim = z3.And(z3.Not(nan_k), pred_k(A.to_real(vv)))
                r2, m2 = A.prove(eng, qq, claim)
                if r2 != "sat":
                    continue
                data = [model_num(m2, d) for d in ds]
                a = None if arg is None else bool(m2.eval(arg, model_completion=True))
                # let the concrete replay decide whether this data set exposes the problem
                rr = ctx.replay("c09", "r_tally", [data, [g, a] if a is not None else None], {}, {})
                if rr.get("reproduced"):
                    return data, ([g, a] if a is not None else None)
            return None
        realize_and_replay(name, q_real, kmax=4)

    # confidence interval
    c_g, f_g = eng.find_method(Tally, "confidence_interval")
    p = A.Path()
    obj = A.new_obj(p, Tally, inv_fields(n, ps, lo, hi))
    p.pc.append(z3.And(realizable(n, ps, lo, hi), alpha >= 0, alpha <= 1))
    problems, nq = [], 0
    cipaths = A.summarize(eng, f_g, [alpha], self_obj=obj, defining_cls=c_g, path=p)
    for q in cipaths:
        if q.outcome[0] != "return":
            r, m = A.prove(eng, q, False)
            nq += 1
            if r != "unsat":
                problems.append(("raises-" + str(q.outcome[1]), r, m))
            continue
        v = q.outcome[1]
        if not isinstance(v, tuple) or len(v) != 2:
            problems.append(("shape", "sat", None))
            continue
        if all((not A.is_sym(e)) and e != e for e in v):
            r, m = A.prove(eng, q, n < 2)
            nq += 1
            if r != "unsat":
                problems.append(("nan-although-defined", r, m))
            continue
        half = z3.Real("half")
        z = A.UF["inv_cdf"](1 - alpha / 2)
        s2 = c2 / (nr - 1)
        claim = z3.And(n >= 2, z3.Or(
            z3.And(alpha == 0, A.to_real(v[0]) == lo, A.to_real(v[1]) == hi),
            z3.And(alpha > 0,
                   A.to_real(v[0]) == z3.If(mu - z * eng.uf(q, "sqrt", s2 / nr) > lo, mu - z * eng.uf(q, "sqrt", s2 / nr), lo),
                   A.to_real(v[1]) == z3.If(mu + z * eng.uf(q, "sqrt", s2 / nr) < hi, mu + z * eng.uf(q, "sqrt", s2 / nr), hi))))
        r, m = A.prove(eng, q, claim)
        nq += 1
        if r != "unsat":
            problems.append(("value", r, m))
    name = "tally/getter-confidence_interval(mean +- z*sqrt(S^2/n) clipped to [min,max]; NaN pair iff n<2; never raises for 0<=alpha<=1)"
    if not problems:
        ob(name, "pass", f"{nq} queries over {len(cipaths)} paths", {"paths": len(cipaths)}, nq)
    elif problems[0][1] == "unknown":
        ob(name, "inconclusive", "solver unknown: " + problems[0][0], None, nq)
    else:
        kind, r, m = problems[0]
        a = model_num(m, alpha) if m is not None else 0.05
        found = False
        for data in ([1.0, 2.0], [1.0, 2.0, 4.0], [0.0, 0.0, 3.0, -1.0]):
            rr = ctx.replay("c09", "r_tally", [data, ["confidence_interval", a]], {}, {})
            if rr.get("reproduced"):
                ctx.report_counterexample(name, "astsym-z3", "c09", "r_tally", [data, ["confidence_interval", a]], {}, {})
                found = True
                break
        if not found:
            ob(name, "inconclusive", f"summary violates the CI lemma ({kind}, alpha={a}) but no concrete data set reproduced it")

    # ------------------------------------------------------------------ n = 0 state: every getter total
    p0 = A.Path()
    res = eng.apply(p0, Tally, ["t"], {}, None)
    o0, p0 = res[0][1], res[0][0]
    tot_ok = True
    for g, arg in getters + [("confidence_interval", alpha)]:
        c_g, f_g = eng.find_method(Tally, g)
        q0 = p0.clone()
        if g == "confidence_interval":
            q0.pc.append(z3.And(alpha >= 0, alpha <= 1))
        for q in A.summarize(eng, f_g, [] if arg is None else [arg], self_obj=o0, defining_cls=c_g, path=q0):
            if q.outcome[0] != "return":
                tot_ok = False
    if tot_ok:
        ob("tally/getters-total-on-the-empty-state", "pass", "no path of any getter raises before the first observation", None, len(getters) + 1)
    else:
        ctx.report_counterexample("tally/empty-state", "astsym-z3", "c09", "r_tally", [[], None], {}, {})

    # ------------------------------------------------------------------ Counter (LIA step lemma)
    cnt, cn, v = z3.Int("count"), z3.Int("cn"), z3.Int("v")
    c_c, f_c = eng.find_method(Counter, "register")
    p = A.Path()
    oc = A.new_obj(p, Counter, {"_count": cnt, "_n": cn, "_name": "c"})
    okc = True
    for q in A.summarize(eng, f_c, [v], self_obj=oc, defining_cls=c_c, path=p):
        r1, _ = A.prove(eng, q, z3.And(q.heap[oc.oid]["_count"] == cnt + v, q.heap[oc.oid]["_n"] == cn + 1))
        okc = okc and q.outcome[0] == "return" and r1 == "unsat"
    pf = A.Path()
    q = A.summarize(eng, f_c, [z3.Real("fv")], self_obj=A.new_obj(pf, Counter, {"_count": cnt, "_n": cn, "_name": "c"}),
                    defining_cls=c_c, path=pf)
    okc = okc and all(qq.outcome == ("raise", "TypeError") for qq in q)
    if okc:
        ob("counter/step-lemma(count += value, n += 1; non-int rejected)", "pass", "LIA queries unsat", None, 3)
    else:
        ctx.report_counterexample("counter/step-lemma", "astsym-z3", "c09", "r_counter", [[3, -1, 4]], {}, {})

    # ------------------------------------------------------------------ translator validation
    from harness import c09 as H
    import random
    rnd = random.Random(ctx.seed)
    datasets = [[1.0 + 0.1 * i for i in range(11)], [5.0], [2.0, 2.0, 2.0], [-3.0, 0.5, 0.5, 7.25]]
    datasets += [[rnd.uniform(-5, 5) for _ in range(rnd.randint(1, 6))] for _ in range(6)]
    mism = 0
    checked = 0
    for data in datasets:
        t = Tally("v")
        for d in data:
            t.register(d)
        # evaluate the step summary on the concrete state: substitute into Inv and compare with the real object
        for f, want in inv_fields(z3.RealVal(len(data)), tuple(z3.RealVal(repr(sum(d ** e for d in data))) for e in (1, 2, 3, 4)),
                                  z3.RealVal(repr(min(data))), z3.RealVal(repr(max(data)))).items():
            if f in ("_name",):
                continue
            val = z3.simplify(A.to_z3(want))
            num = float(val.as_long()) if z3.is_int_value(val) else float(val.numerator_as_long()) / float(val.denominator_as_long())
            real = getattr(t, f)
            checked += 1
            if abs(num - real) > 1e-6 * max(1.0, abs(real)):
                mism += 1
    if mism:
        ob("translator-validation", "inconclusive", f"{mism} of {checked} invariant fields disagree with the real accumulator on the repo's test data: encoding error")
    else:
        ctx.notes.append(f"translator validation: {checked} invariant-field values agree with the real Tally on {len(datasets)} data sets (incl. the test suite's 11-value set)")

    ctx.functions.extend(sorted(eng.functions_used))
    for o in ctx.obligations:
        if o.engine == "astsym-z3":
            o.solver_s = 0.0
    ctx.obligations[0].solver_s = eng.solver_s if ctx.obligations else 0.0
    ctx.notes.append(f"Engine B: {eng.queries} z3 queries, {eng.solver_s:.2f}s solver time, axioms used: "
                     + "; ".join(f"{k}: {A.AXIOMS[k]}" for k in ("sqrt", "inv_cdf")))

    # ------------------------------------------------------------------ Engine A: event-publishing variants
    k = 3 if ctx.tier == "quick" else 4
    hl = 6 if ctx.tier == "quick" else 7
    neq = 16 if ctx.tier == "quick" else 64
    ctx.crosshair([Cond(f"event-tally/K={k}(subscriber attached: register never raises, every published value equals its getter)",
                        "c09", "h_eb_tally", {"VF_K": k}, 900 if ctx.tier == "quick" else 3600),
                   Cond(f"counter+event-counter/K={k}(symbolic ints)", "c09", "h_counter", {"VF_K": k}, 900 if ctx.tier == "quick" else 3600),
                   *[Cond(f"history of {hl} register/initialize/query operations ({'event-publishing' if eb else 'plain'} tally): the "
                          "reported values equal those of a new tally fed the observations since the last initialisation", "c09",
                          "h_history", {"VF_HL": hl, "VF_EB": eb}, 900 if ctx.tier == "quick" else 3600) for eb in (0, 1)],
                   Cond(f"all-equal data (doubles that do not sum exactly), n <= {neq}: variance 0 to accuracy, skewness/kurtosis NaN, "
                        "confidence interval ordered and at the value", "c09", "h_equal", {"VF_NEQ": neq}, 900 if ctx.tier == "quick" else 3600)])
    ctx.bounds = {"tally": "inductive over exact reals: arbitrary ghost state (n>=1, raw power sums, min, max) + one register; "
                           "no bound on history length; getters on every realisable invariant state",
                  "event variants": f"{k} observations from a 5-value grid incl. repeats and 1e6, optional initialize in between",
                  "counter-example realisation": "data sets of <=4 observations in [-8,8] (only used to replay a failing lemma)"}
    ctx.assumptions = ["exact real arithmetic: 'to floating-point accuracy' (IEEE rounding, overflow) is outside the claim",
                       "sqrt as uninterpreted function with axioms s>=0, s*s=x, monotone; NormalDist.inv_cdf uninterpreted "
                       "(z>0 iff p>1/2), raising StatisticsError outside (0,1) as CPython does",
                       "realisability facts of power sums (Cauchy-Schwarz, lo<=mean<=hi, zero variance iff all equal) assumed for getter lemmas",
                       "documented definitions: SAS/Excel sample skewness and excess kurtosis as named in the docstrings"]
    ctx.outside = ["IEEE-754 rounding and overflow of the moment recurrences", "accuracy of NormalDist.inv_cdf"]
