"""C03 - run horizon.  Engine A + inline worker."""
import itertools

from vf.driver import Cond


def _conds(tier):
    conds = []

    def c(cmds, kinds="00", parents="-1,-1", vmax=2, warm=0, priosym=0, clock="int", timeout=500):
        env = {"VF_KINDS": kinds, "VF_PARENTS": parents, "VF_S": len(cmds), "VF_FIXCMD": cmds,
               "VF_VMAX": vmax, "VF_WARM": warm, "VF_PRIOSYM": priosym, "VF_CLOCK": clock}
        name = f"seg[{cmds}]/prog[{kinds}|{parents}]/vmax={vmax}/warm={'sym' if warm < 0 else warm}/prio={'sym' if priosym else 'eq'}/{clock}"
        conds.append(Cond(name, "c03", "h_seg", env, timeout))

    if tier == "quick":
        for cmd in "0123":
            c(cmd, vmax=3, warm=-1 if cmd == "2" else 0)
        for cmds in ("01", "10", "22", "12", "30", "03", "33", "20"):
            c(cmds, vmax=2, warm=1 if "2" in cmds else 0)
        for cmd in "45":
            c(cmd, vmax=3)          # bounded run paused from a handler, then the final start()
    else:
        for cmd in "0123":
            c(cmd, vmax=3, warm=-1, priosym=1, timeout=2400)
            c(cmd, kinds="001", parents="-1,-1,0", vmax=3, timeout=2400)
            c(cmd, clock="float", vmax=3, timeout=2400)
            c(cmd, clock="duration", vmax=2, timeout=2400)
        for tup in itertools.product("012345", repeat=2):
            c("".join(tup), vmax=2, warm=-1 if "2" in tup else 0, timeout=2400)
        for tup in itertools.product("0123", repeat=2):
            c("".join(tup), kinds="01", parents="-1,0", vmax=2, warm=1 if "2" in tup else 0, timeout=2400)
        for cmds in ("012", "103", "221", "302", "230", "013", "320", "131", "200", "022", "313", "101"):
            c(cmds, vmax=2, warm=1 if "2" in cmds else 0, timeout=3000)
    return conds


def run(ctx):
    import pydsol.core.simulator as sm
    D, S = sm.DEVSSimulator, sm.Simulator
    for f in (D._run, D._step_impl, S.start, S._start_impl, S.step, S.stop, S._stop_impl, S.run_up_to,
              S.run_up_to_including, sm.SimulatorWorkerThread.run, D.initialize, S.initialize):
        ctx.source_hash(f)
    ctx.bounds = {
        "segmentation": "S commands over {run_up_to, run_up_to_including, step, start paused by a handler-issued stop, "
                        "run_up_to / run_up_to_including paused by a handler-issued stop}, "
                        "command kinds fixed per condition, arguments symbolic; quick: all 4 single commands and 12 "
                        "pairs; thorough: all pairs over six command kinds, 12 triples, int/float/Duration clocks",
        "program": "2 root events (thorough also a child scheduled by a handler), times 0..vmax, replication end "
                   "1..vmax+1, bounds/pause index 0..vmax+2 (before, at, between, after event times and the end), "
                   "warm-up time symbolic where a step is involved",
    }
    ctx.assumptions = [
        "inline worker generated from the live AST of SimulatorWorkerThread.run (sequential schedule); a pause is a stop() issued from a handler",
        "virtual clock; bare except of SimEvent.execute narrowed; floats as exact reals; Duration from a grid",
        "an exclusive bound >= replication end is excluded from the composition equality (events at t == end stay unexecuted by the sentence itself)",
        "a bound beyond the replication end may leave the clock at the bound or at the end (both accepted)",
    ]
    ctx.outside = ["segmentations longer than 3 commands; programs with more than 3 events",
                   "stop() issued from another thread while the run thread is active (C04 part 2)"]
    ctx.crosshair(_conds(ctx.tier))
