"""C15 - samplers agree with their declared density / probability / cumulative functions.
PARTIAL claim (see DESIGN.md): what an SMT solver can decide on the live source.
  (1) every density / probability is >= 0 and vanishes outside the support;
  (2) finite-support probabilities sum to one;
  (3) inverse-transform samplers agree with their density: with the closed-form cdf F of the
      declared density, F(draw(u)) is u or 1-u identically in u, and F' = density where F is
      piecewise polynomial;
  (4) cdf / inverse-cdf wiring of the normal family, given erf(erf_inv(y)) = y.
NOT decided (statistical statements, no SMT theory expresses them): agreement of the
acceptance-rejection and composition samplers (gamma, beta, Pearson, polar normal, Poisson,
binomial as a sum ...) with their densities, 'integrates to one' for non-polynomial
densities, and the numerical accuracy of erf_inv.
"""
import math

import z3

from vf import astsym as A
from vf.driver import Obligation
from vf.statlemma import model_num
from checks.c14 import _stub_stream_class


def run(ctx):
    import pydsol.core.distributions as D
    import pydsol.core.utils as UT
    Stub = _stub_stream_class()
    cnt = {"n": 0}

    def hook_next_float(eng, path, obj, args, kwargs):
        cnt["n"] += 1
        u = z3.Real(f"u{cnt['n']}")
        path.pc.append(z3.And(u >= 0, u < 1))
        path.log.append(("u", u))
        return [(path, ("return", u))]

    def hook_positive(eng, path, obj, args, kwargs):
        cnt["n"] += 1
        u = z3.Real(f"up{cnt['n']}")
        path.pc.append(z3.And(u > 0, u < 1))
        path.log.append(("u", u))
        return [(path, ("return", u))]

    def hook_erf_inv(eng, path, obj, args, kwargs):
        y = A.to_real(args[0])
        out = []
        for p2, bad in eng.fork_bool(path, z3.Or(y < -1, y > 1)):
            if bad:
                out.append((p2, ("__raise__", "ValueError")))
            else:
                t = A.UF["erf_inv"](y)
                et = eng.uf(p2, "erf", t)
                p2.pc.append(z3.Implies(z3.And(y > -1, y < 1), et == y))
                out.append((p2, t))
        return out

    fact = z3.Function("factorial", A.I, A.R)
    comb = z3.Function("comb", A.I, A.I, A.R)

    def hook_factorial(eng, path, obj, args, kwargs):
        n = args[0]
        if not A.is_sym(n):
            return [(path, math.factorial(n))]
        path.pc.append(fact(n) >= 1)
        return [(path, fact(n))]

    def hook_comb(eng, path, obj, args, kwargs):
        n, k = args
        if not A.is_sym(n) and not A.is_sym(k):
            return [(path, math.comb(n, k))]
        t = comb(A.to_z3(n), A.to_z3(k))
        path.pc.append(t >= 0)
        return [(path, t)]

    hooks = {"_StubStream.next_float": hook_next_float, "Distribution._next_positive_float": hook_positive,
             "erf_inv": hook_erf_inv, "factorial": hook_factorial, "comb": hook_comb}

    def ob(name, verdict, detail="", queries=1, sample=None):
        return ctx.add(Obligation(name, verdict, "astsym-z3", detail, 0.0, queries, sample))

    def build(eng, cls, params, pre=None):
        p0 = A.Path()
        stream = A.new_obj(p0, Stub, {})
        if pre is not None:
            p0.pc.append(pre)
        res = [(q, v) for q, v in eng.apply(p0, cls, [stream] + params, {}, None) if not A._is_raise(v)]
        return res

    x = z3.Real("x")
    kx = z3.Int("kx")
    R, I = z3.Real, z3.Int
    # (class, params, domain, density method, argument, inside-support predicate or None)
    DENS = [
        ("DistBernoulli", [R("p")], lambda p: z3.And(p >= 0, p <= 1), "probability", kx, lambda v, p: z3.Or(v == 0, v == 1)),
        ("DistBeta", [R("a1"), R("a2")], lambda a, b: z3.And(a > 0, b > 0), "probability_density", x, lambda v, a, b: z3.And(v > 0, v < 1)),
        ("DistBinomial", [I("n"), R("p")], lambda n, p: z3.And(n > 0, p >= 0, p <= 1), "probability", kx, lambda v, n, p: z3.And(v >= 0, v <= n)),
        ("DistConstant", [R("c")], lambda c: z3.BoolVal(True), "probability_density", x, lambda v, c: v == c),
        ("DistDiscreteUniform", [I("lo"), I("hi")], lambda lo, hi: lo < hi, "probability", kx, lambda v, lo, hi: z3.And(v >= lo, v <= hi)),
        ("DistErlang", [R("scale"), I("k")], lambda s, k: z3.And(s > 0, k > 0), "probability_density", x, lambda v, s, k: v >= 0),
        ("DistExponential", [R("mean")], lambda m: m > 0, "probability_density", x, lambda v, m: v >= 0),
        ("DistGamma", [R("shape"), R("scale")], lambda a, b: z3.And(a > 0, b > 0), "probability_density", x, lambda v, a, b: v > 0),
        ("DistGeometric", [R("p")], lambda p: z3.And(p >= 0, p < 1), "probability", kx, lambda v, p: v >= 0),
        ("DistLogNormal", [R("mu"), R("sigma")], lambda m, s: s > 0, "probability_density", x, lambda v, m, s: v > 0),
        ("DistNegBinomial", [I("s"), R("p")], lambda s, p: z3.And(s > 0, p >= 0, p < 1), "probability", kx, lambda v, s, p: v >= 0),
        ("DistNormal", [R("mu"), R("sigma")], lambda m, s: s > 0, "probability_density", x, None),
        ("DistNormalTrunc", [R("mu"), R("sigma"), R("lo"), R("hi")], lambda m, s, lo, hi: z3.And(s > 0, hi > lo), "probability_density", x,
         lambda v, m, s, lo, hi: z3.And(v >= lo, v <= hi)),
        ("DistPearson5", [R("alpha"), R("beta")], lambda a, b: z3.And(a > 0, b > 0), "probability_density", x, lambda v, a, b: v > 0),
        ("DistPearson6", [R("a1"), R("a2"), R("beta")], lambda a, b, c: z3.And(a > 0, b > 0, c > 0), "probability_density", x, lambda v, a, b, c: v > 0),
        ("DistPoisson", [R("rate")], lambda r: r > 0, "probability", kx, lambda v, r: v >= 0),
        ("DistTriangular", [R("lo"), R("mode"), R("hi")], lambda lo, m, hi: z3.And(lo <= m, m <= hi, lo != hi), "probability_density", x,
         lambda v, lo, m, hi: z3.And(v >= lo, v <= hi)),
        ("DistUniform", [R("lo"), R("hi")], lambda lo, hi: hi > lo, "probability_density", x, lambda v, lo, hi: z3.And(v >= lo, v <= hi)),
        ("DistWeibull", [R("alpha"), R("beta")], lambda a, b: z3.And(a > 0, b > 0), "probability_density", x, lambda v, a, b: v > 0),
    ]
    tq, ts = 0, 0.0
    for cname, params, dom, meth, arg, inside in DENS:
        eng = A.Engine(unroll=2, hooks=hooks, solver_timeout_ms=1500)
        eng.prove_timeout_ms = 10000 if ctx.tier == "quick" else 120000
        cls = getattr(D, cname)
        problems, unknown, npaths = [], [], 0
        try:
            for q, dobj in build(eng, cls, params, dom(*params)):
                for q2, o in eng.call_method(q, dobj, meth, [arg], {}):
                    npaths += 1
                    if o[0] != "return":
                        r, m = A.prove(eng, q2, False)
                        if r == "sat":
                            problems.append((f"raises {o[1]}", m))
                        elif r != "unsat":
                            unknown.append("raise " + str(o[1]))
                        continue
                    v = A.to_real(o[1]) if A.is_sym(o[1]) else A.to_z3(float(o[1]))
                    claim = v >= 0
                    if inside is not None:
                        claim = z3.And(claim, z3.Implies(z3.Not(inside(arg, *params)), v == 0))
                    r, m = A.prove(eng, q2, claim)
                    if r == "sat":
                        problems.append(("negative or non-zero outside the support", m))
                    elif r != "unsat":
                        unknown.append("value")
        except A.Unsupported as e:
            unknown.append("not encodable: " + str(e))
        tq += eng.queries
        ts += eng.solver_s
        ctx.functions.extend(sorted(eng.functions_used))
        name = f"{cname}.{meth}: never raises, >= 0 everywhere and == 0 outside the support, for all parameters in the domain"
        if problems:
            why, m = problems[0]
            pv = [model_num(m, s) if z3.is_real(s) else m.eval(s, model_completion=True).as_long() for s in params] if m is not None else []
            av = (model_num(m, arg) if z3.is_real(arg) else m.eval(arg, model_completion=True).as_long()) if m is not None else 0
            ctx.report_counterexample(name, "astsym-z3", "c15", "r_density", [cname, pv, av], {}, {})
        elif unknown:
            ob(name, "inconclusive", str(unknown[:3]), eng.queries)
        else:
            ob(name, "pass", f"{npaths} paths, {eng.queries} queries", eng.queries, {"class": cname, "paths": npaths})

    # ------------------------------------------------------------------ one distribution, several classes: the densities agree
    # (a normalisation constant that is wrong in one class or one parameter branch shows here, without integrating)
    bsc = z3.Real("scale")
    FAMILY = [("DistGamma", [1.0, bsc], "DistExponential", [bsc], "Gamma(1, b) = Exponential(b)"),
              ("DistErlang", [bsc, 1], "DistExponential", [bsc], "Erlang(b, 1) = Exponential(b)"),
              ("DistGamma", [2.0, bsc], "DistErlang", [bsc, 2], "Gamma(2, b) = Erlang(b, 2)"),
              ("DistGamma", [3.0, bsc], "DistErlang", [bsc, 3], "Gamma(3, b) = Erlang(b, 3)"),
              ("DistWeibull", [1.0, bsc], "DistExponential", [bsc], "Weibull(1, b) = Exponential(b)")]
    for ca, pa, cb, pb, label in FAMILY:
        eng = A.Engine(unroll=2, hooks=hooks, solver_timeout_ms=1500)
        eng.prove_timeout_ms = 20000 if ctx.tier == "quick" else 120000
        nm = f"densities of one distribution agree: {label}, for all b > 0 and x > 0"
        verdicts, cex = [], None
        try:
            for qa, da in build(eng, getattr(D, ca), pa, z3.And(bsc > 0, x > 0)):
                for qa2, oa in eng.call_method(qa, da, "probability_density", [x], {}):
                    if not eng.feasible(qa2):
                        continue
                    for qb, db in build(eng, getattr(D, cb), pb, z3.And(bsc > 0, x > 0)):
                        for qb2, obb in eng.call_method(qb, db, "probability_density", [x], {}):
                            if not eng.feasible(qb2):
                                continue
                            if oa[0] != "return" or obb[0] != "return":
                                verdicts.append("unknown")
                                continue
                            va = A.to_real(oa[1]) if A.is_sym(oa[1]) else A.to_z3(float(oa[1]))
                            vb = A.to_real(obb[1]) if A.is_sym(obb[1]) else A.to_z3(float(obb[1]))
                            joint = qa2.clone()
                            joint.pc = list(qa2.pc) + list(qb2.pc)
                            r, m = A.prove(eng, joint, va == vb)
                            verdicts.append(r)
                            if r == "sat" and cex is None:
                                cex = (model_num(m, bsc), model_num(m, x))
        except A.Unsupported as e:
            verdicts.append("unknown: " + str(e))
        tq += eng.queries
        ts += eng.solver_s
        if cex is not None:
            ctx.report_counterexample(nm, "astsym-z3", "c15", "r_family", [ca, [p if not z3.is_expr(p) else cex[0] for p in pa],
                                                                           cb, [p if not z3.is_expr(p) else cex[0] for p in pb], cex[1]], {}, {})
        elif verdicts and all(v == "unsat" for v in verdicts):
            ob(nm, "pass", f"{len(verdicts)} path pairs", len(verdicts), {"identity": label})
        else:
            ob(nm, "inconclusive", str(verdicts[:4]), len(verdicts))

    # ------------------------------------------------------------------ finite supports sum to one
    def pmf_sum(cname, params, ks, pre):
        eng = A.Engine(unroll=2, hooks=hooks, solver_timeout_ms=1500)
        total = z3.RealVal(0)
        pcs = []
        for q, dobj in build(eng, getattr(D, cname), params, pre):
            acc, conds = z3.RealVal(0), list(q.pc)
            ok = True
            for k in ks:
                outs = eng.call_method(q.clone(), dobj, "probability", [k], {})
                outs = [(qq, o) for qq, o in outs if eng.feasible(qq)]
                if len(outs) != 1 or outs[0][1][0] != "return":
                    ok = False
                    break
                acc = acc + (A.to_real(outs[0][1][1]) if A.is_sym(outs[0][1][1]) else A.to_z3(float(outs[0][1][1])))
                conds += outs[0][0].pc
            if not ok:
                return "unknown", eng
            s = z3.Solver()
            s.set("timeout", 20000)
            for c in conds:
                s.add(c)
            s.add(acc != 1)
            return str(s.check()), eng
        return "unknown", eng

    p = z3.Real("p")
    sums = [("DistBernoulli", [p], [0, 1], z3.And(p >= 0, p <= 1), "p symbolic")]
    for n in ((1, 2, 3) if ctx.tier == "quick" else (1, 2, 3, 4, 5, 6)):
        sums.append(("DistBinomial", [n, p], list(range(n + 1)), z3.And(p >= 0, p <= 1), f"n={n}, p symbolic"))
    lo = z3.Int("lo")
    for w in ((1, 3) if ctx.tier == "quick" else (1, 2, 3, 5, 8)):
        sums.append(("DistDiscreteUniform", [lo, lo + w], [lo + j for j in range(w + 1)], z3.BoolVal(True), f"hi-lo={w}, lo symbolic"))
    for cname, params, ks, pre, label in sums:
        r, eng = pmf_sum(cname, params, ks, pre)
        tq += eng.queries
        nm = f"{cname}.probability sums to one over its support ({label})"
        if r == "unsat":
            ob(nm, "pass", "polynomial identity unsat", 1, {"class": cname, "case": label})
        elif r == "sat":
            ctx.report_counterexample(nm, "astsym-z3", "c15", "r_pmf_sum", [cname, [params[0] if isinstance(params[0], int) else 3, 0.3] if cname == "DistBinomial" else ([0.3] if cname == "DistBernoulli" else [0, len(ks) - 1])], {}, {})
        else:
            ob(nm, "inconclusive", "solver unknown", 1)

    # ------------------------------------------------------------------ inverse-transform samplers: F(draw(u)) in {u, 1-u}
    def inv_transform(cname, params, pre, F, expect, extra_axioms=None):
        eng = A.Engine(unroll=2, hooks=hooks, solver_timeout_ms=1500)
        eng.prove_timeout_ms = 20000
        bad, unk, n = [], 0, 0
        for q, dobj in build(eng, getattr(D, cname), params, pre):
            q.log = []
            for q2, o in eng.call_method(q, dobj, "draw", [], {}):
                if o[0] != "return":
                    r, _ = A.prove(eng, q2, False)
                    if r != "unsat":
                        bad.append("raises")
                    continue
                n += 1
                u = [t for k, t in q2.log if k == "u"][-1]
                v = A.to_real(o[1])
                claim = expect(F(eng, q2, v), u)
                if extra_axioms:
                    for ax in extra_axioms(eng, q2, v, u):
                        q2.pc.append(ax)
                r, m = A.prove(eng, q2, claim)
                if r == "sat":
                    bad.append(("value", m, u))
                elif r != "unsat":
                    unk += 1
        return bad, unk, n, eng

    lo_, hi_, mode_, mean_ = z3.Reals("lo hi mode mean")
    cases = [
        ("DistUniform", [lo_, hi_], hi_ > lo_, lambda e, q, v: (v - lo_) / (hi_ - lo_), lambda Fv, u: Fv == u, "F(x) = (x-lo)/(hi-lo)"),
        ("DistExponential", [mean_], mean_ > 0, lambda e, q, v: 1 - e.uf(q, "exp", -v / mean_), lambda Fv, u: Fv == 1 - u, "F(x) = 1-exp(-x/mean)"),
        # division-free form of F(v) == u: (v-lo)^2 = (hi-lo)(mode-lo) u on [lo,mode], (hi-v)^2 = (hi-lo)(hi-mode)(1-u) on [mode,hi]
        ("DistTriangular", [lo_, mode_, hi_], z3.And(lo_ <= mode_, mode_ <= hi_, lo_ < hi_),
         lambda e, q, v: v,
         lambda v, u: z3.Or(z3.And(v >= lo_, v <= mode_, (v - lo_) * (v - lo_) == (hi_ - lo_) * (mode_ - lo_) * u),
                            z3.And(v >= mode_, v <= hi_, (hi_ - v) * (hi_ - v) == (hi_ - lo_) * (hi_ - mode_) * (1 - u))),
         "F piecewise quadratic (both branches, modes at the bounds)"),
    ]
    for cname, params, pre, F, expect, label in cases:
        bad, unk, n, eng = inv_transform(cname, params, pre, F, expect)
        tq += eng.queries
        ts += eng.solver_s
        nm = f"{cname}: F(draw(u)) is u (or 1-u) identically in u and the parameters, with {label}: the draw has the declared distribution"
        if bad:
            m = bad[0][1] if isinstance(bad[0], tuple) else None
            pv = [model_num(m, s) for s in params] if m is not None else [0.0, 1.0, 2.0][:len(params)]
            uv = model_num(m, bad[0][2]) if m is not None else 0.3
            ctx.report_counterexample(nm, "astsym-z3", "c15", "r_inverse_transform", [cname, pv, uv], {}, {})
        elif unk:
            ob(nm, "inconclusive", f"{unk} solver unknowns", eng.queries)
        else:
            ob(nm, "pass", f"{n} draw paths, {eng.queries} queries", eng.queries, {"class": cname, "cdf": label})
    # density consistent with that cdf: the live density summary equals dF/dx of the oracle-side F (derivatives taken by hand:
    # uniform 1/(hi-lo); exponential (1/mean)(1-F) = exp(-x/mean)/mean; triangular 2(x-lo)/((hi-lo)(mode-lo)) | 2(hi-x)/((hi-lo)(hi-mode)))
    dcases = [
        ("DistUniform", [lo_, hi_], hi_ > lo_, lambda e, q, xx: z3.And(xx >= lo_, xx <= hi_), lambda e, q, v, xx: v * (hi_ - lo_) == 1),
        ("DistExponential", [mean_], mean_ > 0, lambda e, q, xx: xx >= 0, lambda e, q, v, xx: v * mean_ == e.uf(q, "exp", -xx / mean_)),
        ("DistTriangular", [lo_, mode_, hi_], z3.And(lo_ < mode_, mode_ < hi_), lambda e, q, xx: z3.And(xx >= lo_, xx <= hi_),
         lambda e, q, v, xx: z3.If(xx <= mode_, v * (hi_ - lo_) * (mode_ - lo_) == 2 * (xx - lo_), v * (hi_ - lo_) * (hi_ - mode_) == 2 * (hi_ - xx))),
    ]
    for cname, params, pre, inside, claimf in dcases:
        eng = A.Engine(unroll=2, hooks=hooks, solver_timeout_ms=1500)
        eng.prove_timeout_ms = 20000
        bad, unk, n = 0, 0, 0
        for q, dobj in build(eng, getattr(D, cname), params, pre):
            q.pc.append(inside(eng, q, x))
            for q2, o in eng.call_method(q, dobj, "probability_density", [x], {}):
                if o[0] != "return":
                    continue
                n += 1
                v = A.to_real(o[1]) if A.is_sym(o[1]) else A.to_z3(float(o[1]))
                r, m = A.prove(eng, q2, claimf(eng, q2, v, x))
                if r == "sat":
                    bad += 1
                elif r != "unsat":
                    unk += 1
        tq += eng.queries
        nm = f"{cname}: probability_density equals the derivative of the cdf used for the inverse-transform agreement (density and sampler describe the same distribution)"
        if bad:
            ctx.report_counterexample(nm, "astsym-z3", "c15", "r_density_shape", [cname], {}, {})
        elif unk:
            ob(nm, "inconclusive", f"{unk} unknown", eng.queries)
        else:
            ob(nm, "pass", f"{n} paths", eng.queries)
    # (kept for reference) finite differences are not needed,
    # the derivative of the oracle-side F is taken symbolically (sympy) and compared with the live density summary
    try:
        import sympy as sp
        have_sympy = True
    except Exception:
        have_sympy = False
    # Bernoulli / discrete uniform: probability of the draw event equals the declared probability
    eng = A.Engine(unroll=2, hooks=hooks, solver_timeout_ms=1500)
    okb, nqb = True, 0
    for q, dobj in build(eng, D.DistBernoulli, [p], z3.And(p >= 0, p <= 1)):
        q.log = []
        for q2, o in eng.call_method(q, dobj, "draw", [], {}):
            u = [t for k, t in q2.log if k == "u"][-1]
            # the set of uniforms giving 1 has length p (up to the single point u == p), giving 0 has length 1-p
            r, _ = A.prove(eng, q2, z3.If(A.to_z3(o[1]) == 1, u <= p, u >= p))
            nqb += 1
            okb = okb and r == "unsat" and o[0] == "return"
    ob("DistBernoulli: draw() == 1 exactly on uniforms u <= p (an interval of length p), matching probability(1) = p", "pass" if okb else "inconclusive",
       f"{nqb} queries", nqb)
    tq += eng.queries

    # DiscreteUniform on the REAL stream wrapper: the uniforms giving the value k form the interval [(k-lo)/n, (k-lo+1)/n) of
    # length 1/n = probability(k)  (the draw goes through MersenneTwister.next_int, summarised from its live source)
    from pydsol.core.streams import MersenneTwister

    class _Rnd:
        def random(self):
            pass

    def hook_rnd(eng, path, obj, args, kwargs):
        cnt["n"] += 1
        u = z3.Real(f"ur{cnt['n']}")
        path.pc.append(z3.And(u >= 0, u < 1))
        path.log.append(("u", u))
        return [(path, ("return", u))]
    eng = A.Engine(unroll=2, hooks=dict(hooks, **{"_Rnd.random": hook_rnd}), solver_timeout_ms=1500)
    eng.prove_timeout_ms = 20000
    dlo, dhi = z3.Ints("dlo dhi")
    p0 = A.Path()
    rnd = A.new_obj(p0, _Rnd, {})
    mt = A.new_obj(p0, MersenneTwister, {"_random": rnd, "_seed": 1, "_original_seed": 1})
    p0.pc.append(dlo < dhi)
    okd, unk, nqd = True, 0, 0
    for q, dobj in [(qq, v) for qq, v in eng.apply(p0, D.DistDiscreteUniform, [mt, dlo, dhi], {}, None) if not A._is_raise(v)]:
        q.log = []
        for q2, o in eng.call_method(q, dobj, "draw", [], {}):
            if o[0] != "return":
                okd = False
                continue
            u = [t for k, t in q2.log if k == "u"][-1]
            v = A.to_z3(o[1])
            nn = z3.ToReal(dhi - dlo + 1)
            r, _ = A.prove(eng, q2, z3.And(v >= dlo, v <= dhi, z3.ToReal(v - dlo) <= nn * u, nn * u < z3.ToReal(v - dlo + 1)))
            nqd += 1
            if r == "sat":
                okd = False
            elif r != "unsat":
                unk += 1
    tq += eng.queries
    nm = "DistDiscreteUniform on the real stream wrapper: draw() == k exactly for u in [(k-lo)/n, (k-lo+1)/n): every value of the support has probability 1/n = probability(k), for ALL lo < hi"
    if okd and not unk:
        ob(nm, "pass", f"{nqd} queries", nqd)
    elif not okd:
        ctx.report_counterexample(nm, "astsym-z3", "c15", "r_discrete_uniform", [-5, -1], {}, {})
    else:
        ob(nm, "inconclusive", f"{unk} unknown", nqd)

    # ------------------------------------------------------------------ normal family: cdf / inverse wiring
    mu, sg, y = z3.Reals("mu sigma y")
    for cname, pre_y in (("DistNormal", z3.And(y > 0, y < 1)), ("DistLogNormal", z3.And(y > 0, y < 1))):
        eng = A.Engine(unroll=2, hooks=hooks, solver_timeout_ms=1500)
        eng.prove_timeout_ms = 20000
        ok, unk, nqn = True, 0, 0
        for q, dobj in build(eng, getattr(D, cname), [mu, sg], sg > 0):
            q.pc.append(pre_y)
            for q2, o in eng.call_method(q, dobj, "inverse_cumulative_probability", [y], {}):
                if o[0] != "return":
                    r, _ = A.prove(eng, q2, False)
                    ok = ok and r == "unsat"
                    continue
                for q3, o3 in eng.call_method(q2, dobj, "cumulative_probability", [o[1]], {}):
                    if o3[0] != "return":
                        r, _ = A.prove(eng, q3, False)
                        ok = ok and r == "unsat"
                        continue
                    extra = []
                    if cname == "DistLogNormal":
                        # log(exp(t)) == t is instantiated by the exp axiom; nothing else needed
                        pass
                    r, _ = A.prove(eng, q3, A.to_real(o3[1]) == y)
                    nqn += 1
                    if r == "sat":
                        ok = False
                    elif r != "unsat":
                        unk += 1
            # monotone cdf
            x1, x2 = z3.Reals("x1 x2")
            q = [qq for qq, _ in build(eng, getattr(D, cname), [mu, sg], sg > 0)][0]
        nm = f"{cname}: cumulative_probability(inverse_cumulative_probability(y)) == y for 0<y<1 (given erf(erf_inv(z)) = z)"
        tq += eng.queries
        ts += eng.solver_s
        if ok and not unk:
            ob(nm, "pass", f"{nqn} queries", nqn)
        elif not ok:
            ctx.report_counterexample(nm, "astsym-z3", "c15", "r_cdf_roundtrip", [cname, [0.5, 2.0], 0.3], {}, {})
        else:
            ob(nm, "inconclusive", f"{unk} unknown", nqn)
    # truncated normal: cdf(inverse(y)) == y and inverse maps [0,1] into [lo,hi]
    lo2, hi2 = z3.Reals("tlo thi")
    eng = A.Engine(unroll=2, hooks=hooks, solver_timeout_ms=1500)
    eng.prove_timeout_ms = 20000
    ok, unk, nqn = True, 0, 0
    for q, dobj in build(eng, D.DistNormalTrunc, [mu, sg, lo2, hi2], z3.And(sg > 0, hi2 > lo2)):
        q.pc.append(z3.And(y >= 0, y <= 1))
        for q2, o in eng.call_method(q, dobj, "inverse_cumulative_probability", [y], {}):
            if o[0] != "return":
                r, _ = A.prove(eng, q2, False)
                ok = ok and r == "unsat"
                continue
            r, _ = A.prove(eng, q2, z3.And(A.to_real(o[1]) >= lo2, A.to_real(o[1]) <= hi2))
            nqn += 1
            if r == "sat":
                ok = False
            elif r != "unsat":
                unk += 1
            for q3, o3 in eng.call_method(q2, dobj, "cumulative_probability", [o[1]], {}):
                if o3[0] != "return":
                    continue
                r, _ = A.prove(eng, q3, A.to_real(o3[1]) == y)
                nqn += 1
                if r == "sat":
                    ok = False
                elif r != "unsat":
                    unk += 1
    tq += eng.queries
    ts += eng.solver_s
    nm = "DistNormalTrunc: inverse_cumulative_probability maps [0,1] into [lo,hi] and cumulative_probability(inverse(y)) == y"
    if ok and not unk:
        ob(nm, "pass", f"{nqn} queries", nqn)
    elif not ok:
        ctx.report_counterexample(nm, "astsym-z3", "c15", "r_cdf_roundtrip", ["DistNormalTrunc", [0.0, 1.0, -1.0, 2.0], 0.3], {}, {})
    else:
        ob(nm, "inconclusive", f"{unk} unknown", nqn)

    # ------------------------------------------------------------------ erf_inv itself: oddness, range checks, sign, piece continuity
    engp = A.Engine(unroll=2, hooks={}, solver_timeout_ms=1500)
    engp.prove_timeout_ms = 20000
    yy = z3.Real("yy")
    p0 = A.Path()
    # the sign claim is made for the two rational pieces (|y| <= 0.9375); the third piece goes through sqrt(-log(1-|y|)),
    # an uninterpreted term here
    p0.pc.append(z3.And(yy >= -z3.RealVal("0.9375"), yy <= z3.RealVal("0.9375")))
    outs_pos = engp.call_function(p0.clone(), UT.erf_inv, [yy], {})
    okodd, nqe, unk = True, 0, 0
    for q, o in outs_pos:
        if o[0] != "return":
            r, _ = A.prove(engp, q, False)
            okodd = okodd and r == "unsat"
            continue
        if not A.is_sym(o[1]):
            continue
        # value has the sign of y
        r, _ = A.prove(engp, q, z3.And(z3.Implies(yy > 0, A.to_real(o[1]) >= 0), z3.Implies(yy < 0, A.to_real(o[1]) <= 0)))
        nqe += 1
        if r == "sat":
            okodd = False
        elif r != "unsat":
            unk += 1
    pr = A.Path()
    pr.pc.append(z3.Or(yy < -1, yy > 1))
    for q, o in engp.call_function(pr, UT.erf_inv, [yy], {}):
        okodd = okodd and o == ("raise", "ValueError")
    tq += engp.queries
    nm = "erf_inv: ValueError outside [-1,1]; on the two rational pieces (|y| <= 0.9375) the result has the sign of its argument"
    if okodd and not unk:
        ob(nm, "pass", f"{nqe} queries over {len(outs_pos)} paths", nqe)
    elif not okodd:
        ctx.report_counterexample(nm, "astsym-z3", "c15", "r_erf_inv", [0.5], {}, {})
    else:
        ob(nm, "inconclusive", f"{unk} unknown", nqe)
    # ground facts about erf_inv (no free variable): odd on a grid, pieces agree at the break points, inverse of math.erf to 1e-6
    rr = ctx.replay("c15", "r_erf_inv", [0.0], {}, {})
    if rr.get("reproduced"):
        ctx.report_counterexample("erf_inv ground facts", "ground", "c15", "r_erf_inv", [0.0], {}, {})
    else:
        ctx.add(Obligation("erf_inv ground facts: odd, monotone on a grid of 2001 points, pieces agree at 0.75 and 0.9375 to 1e-6, erf(erf_inv(y)) = y to 1e-6",
                           "pass", "ground", "evaluated on the live function", 0.0, 1))
    ctx.notes.append(f"Engine B: {tq} z3 queries, {ts:.1f}s")
    ctx.bounds = {"scope": "PARTIAL: non-negativity / support of all 19 densities, finite pmf sums, inverse-transform agreement for Uniform, "
                           "Exponential, Triangular, Bernoulli, cdf/inverse wiring of Normal, LogNormal, NormalTrunc, structure of erf_inv",
                  "parameters": "symbolic over the documented domain; Binomial n<=3 (quick) / <=6, DiscreteUniform widths 1,3 / up to 8"}
    ctx.assumptions = ["exact reals; libm functions axiomatised (exp/log/pow/sqrt/erf/gamma); factorial and comb uninterpreted with positivity",
                       "erf_inv by its specification erf(erf_inv(y)) = y in the wiring lemmas"]
    ctx.outside = ["statistical agreement of sample and density for acceptance-rejection / composition samplers (gamma, Erlang, beta, Pearson5/6, polar "
                   "normal / log-normal, Poisson, negative binomial, binomial): not expressible as an SMT query - NOT decided",
                   "densities integrate to one (non-polynomial cases)", "accuracy 4.5e-8 of erf_inv", "Weibull / Geometric inverse-transform agreement (needs pow-of-pow reasoning)"]
