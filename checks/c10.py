"""C10 - weighted and time-weighted tallies.  Engine B (astsym -> z3), inductive + bounded."""
import itertools
import math

import z3

from vf import astsym as A
from vf.driver import Obligation
from vf.statlemma import model_num

# small histories used ONLY to turn a failing lemma into a concrete replay (not the deciding step)
W_BATTERY = [[], [(0.0, 1.0)], [(0.0, 1.0), (0.0, 3.0)], [(2.0, 1.0)], [(2.0, 1.0), (1.0, 4.0)],
             [(1.0, 2.0), (0.0, 9.0), (3.0, -1.0)], [(0.5, 2.0), (0.5, 2.0)], [(1.0, 1.0), (2.0, 3.0), (0.5, -2.0), (4.0, 0.25)],
             [(0.0, 5.0), (2.0, 5.0), (0.0, -5.0)], [(3.0, 0.0), (1.0, 0.0), (2.0, 6.0)]]
T_BATTERY = [([(0.0, 1.0)], 0.0, []), ([(0.0, 1.0)], 2.0, [(3.0, 5.0)]), ([(1.0, 2.0), (3.0, 4.0)], 5.0, [(6.0, 1.0)]),
             ([(1.0, 2.0), (1.0, 7.0), (4.0, 1.0)], 4.0, [(4.0, 2.0)]), ([(0.0, 3.0), (2.0, 3.0), (2.0, -1.0), (5.0, 0.5)], 7.5, [(9.0, 9.0)]),
             ([(2.0, 1.0), (3.0, 1.0)], 3.0, [])]


def ghost():
    n, m = z3.Int("n"), z3.Int("m")          # observations, positively weighted observations
    W, Aw, Q, lo, hi = z3.Reals("W Aw Q lo hi")
    return n, m, W, Aw, Q, lo, hi


def inv_fields(n, m, W, Aw, Q, lo, hi, zero=False):
    from pydsol.core.statistics import WeightedTally
    # every other attribute __init__ creates keeps its initial value; the lemmas iterate the invariant fields only
    return A.StateFields(A.ctor_defaults(WeightedTally, "t"), _inv_fields(n, m, W, Aw, Q, lo, hi, zero))


def _inv_fields(n, m, W, Aw, Q, lo, hi, zero=False):
    if zero:       # only zero-weight observations so far
        return {"_n": n, "_n_nonzero": 0, "_sum_of_weights": 0.0, "_weighted_mean": 0.0,
                "_weight_times_variance": 0.0, "_weighted_sum": 0.0, "_min": lo, "_max": hi, "_name": "t"}
    return {"_n": n, "_n_nonzero": m, "_sum_of_weights": W, "_weighted_mean": Aw / W,
            "_weight_times_variance": Q - Aw * Aw / W, "_weighted_sum": Aw, "_min": lo, "_max": hi, "_name": "t"}


def run(ctx):
    from pydsol.core.statistics import WeightedTally, TimestampWeightedTally
    eng = A.Engine(unroll=2)

    def ob(name, verdict, detail="", sample=None, queries=1):
        return ctx.add(Obligation(name, verdict, "astsym-z3", detail, 0.0, queries, sample))

    def replay_battery(name, fn, items, why):
        for it in items:
            rr = ctx.replay("c10", fn, list(it) if isinstance(it, tuple) else [it], {}, {})
            if rr.get("reproduced"):
                return ctx.report_counterexample(name, "astsym-z3", "c10", fn, list(it) if isinstance(it, tuple) else [it], {}, {})
        return ob(name, "inconclusive", why + " - lemma fails on the summary but no history of the replay battery reproduces it "
                                              "(invariant too weak, or a defect outside the battery)")

    def eq(q, got, want):
        if not A.is_sym(got) and not A.is_sym(want):
            return ("unsat" if (got == want) else A.prove(eng, q, False)[0]), None
        g, w = A.to_z3(got), A.to_z3(want)
        if z3.is_int(g) != z3.is_int(w):
            g, w = A.to_real(g), A.to_real(w)
        return A.prove(eng, q, g == w)

    n, m, W, Aw, Q, lo, hi = ghost()
    w, x = z3.Real("w"), z3.Real("x")
    c_reg, f_reg = eng.find_method(WeightedTally, "register")

    # ------------------------------------------------------------------ step lemmas
    cases = [
        ("W>0,w>0", False, z3.And(n >= 1, m >= 1, W > 0, w > 0),
         lambda: inv_fields(n + 1, m + 1, W + w, Aw + w * x, Q + w * x * x, z3.If(x < lo, x, lo), z3.If(x > hi, x, hi))),
        ("W=0,w>0", True, z3.And(n >= 1, w > 0),
         lambda: inv_fields(n + 1, z3.IntVal(1), w, w * x, w * x * x, z3.If(x < lo, x, lo), z3.If(x > hi, x, hi))),
        ("W>0,w=0", False, z3.And(n >= 1, m >= 1, W > 0, w == 0),
         lambda: inv_fields(n + 1, m, W, Aw, Q, z3.If(x < lo, x, lo), z3.If(x > hi, x, hi))),
        ("W=0,w=0", True, z3.And(n >= 1, w == 0),
         lambda: inv_fields(n + 1, 0, 0, 0, 0, z3.If(x < lo, x, lo), z3.If(x > hi, x, hi), zero=True)),
    ]
    for label, zero, pre, mkpost in cases:
        p = A.Path()
        obj = A.new_obj(p, WeightedTally, inv_fields(n, m, W, Aw, Q, lo, hi, zero=zero))
        p.pc.append(pre)
        paths = A.summarize(eng, f_reg, [w, x], self_obj=obj, defining_cls=c_reg, path=p)
        post = mkpost()
        bad, nq = [], 0
        for q in paths:
            if q.outcome[0] != "return":
                r, _ = A.prove(eng, q, False)
                nq += 1
                if r != "unsat":
                    bad.append(("raises-" + str(q.outcome[1]), r))
                continue
            for f, want in post.items():
                if f == "_name":
                    continue
                r, _ = eq(q, q.heap[obj.oid][f], want)
                nq += 1
                if r != "unsat":
                    bad.append((f, r))
        name = f"weighted/step-lemma[{label}](register preserves W=sum w, A=sum wx, mean=A/W, wtv=Q-A^2/W; zero weights touch only n,min,max)"
        if not bad:
            ob(name, "pass", f"{nq} queries unsat over {len(paths)} paths", {"case": label, "paths": len(paths)}, nq)
        elif any(r == "unknown" for _, r in bad):
            ob(name, "inconclusive", f"solver unknown on {bad[0][0]}", None, nq)
        else:
            replay_battery(name, "r_weighted", W_BATTERY, f"field {bad[0][0]}")

    # base case: first observation on a fresh object
    p = A.Path()
    res = eng.apply(p, WeightedTally, ["t"], {}, None)
    fresh, pb = res[0][1], res[0][0]
    fresh_fields = dict(pb.heap[fresh.oid])
    pb.pc.append(w >= 0)
    okb, nq = True, 0
    for q in A.summarize(eng, f_reg, [w, x], self_obj=fresh, defining_cls=c_reg, path=pb):
        okb = okb and q.outcome[0] == "return"
        for pos in (True, False):
            cond = (w > 0) if pos else (w == 0)
            want = inv_fields(z3.IntVal(1), z3.IntVal(1), w, w * x, w * x * x, x, x) if pos else \
                inv_fields(z3.IntVal(1), 0, 0, 0, 0, x, x, zero=True)
            for f, wv in want.items():
                if f == "_name":
                    continue
                got = q.heap[fresh.oid][f]
                if not A.is_sym(got) and isinstance(got, float) and got != got:
                    okb = False
                    continue
                g, wz = A.to_z3(got), A.to_z3(wv)
                if z3.is_int(g) != z3.is_int(wz):
                    g, wz = A.to_real(g), A.to_real(wz)
                r, _ = A.prove(eng, q, z3.Implies(cond, g == wz))
                nq += 1
                okb = okb and r == "unsat"
    if okb:
        ob("weighted/base-case(first observation establishes the invariant)", "pass", f"{nq} queries", None, nq)
    else:
        replay_battery("weighted/base-case", "r_weighted", W_BATTERY, "base case")

    # initialize
    c_i, f_i = eng.find_method(WeightedTally, "initialize")
    p = A.Path()
    obj = A.new_obj(p, WeightedTally, inv_fields(n, m, W, Aw, Q, lo, hi))
    okinit = True
    for q in A.summarize(eng, f_i, [], self_obj=obj, defining_cls=c_i, path=p):
        for f, want in fresh_fields.items():
            got = q.heap[obj.oid].get(f)
            if A.is_sym(got) or not ((got == want) or (isinstance(got, float) and got != got and want != want)):
                okinit = False
    ob("weighted/initialize-forgets-everything", "pass" if okinit else "inconclusive",
       "all fields equal to a fresh object" if okinit else "fields differ from a fresh object")

    # rejected observations leave every field untouched
    for label, args in (("negative-weight", [z3.Real("wn"), x]), ("nan-weight", [math.nan, x]), ("nan-value", [w, math.nan]),
                        ("str-weight", ["a", x]), ("none-value", [w, None])):
        p = A.Path()
        obj = A.new_obj(p, WeightedTally, inv_fields(n, m, W, Aw, Q, lo, hi))
        p.pc.append(z3.And(n >= 1, m >= 1, W > 0, w >= 0, z3.Real("wn") < 0))
        before = dict(p.heap[obj.oid])
        okr = True
        for q in A.summarize(eng, f_reg, args, self_obj=obj, defining_cls=c_reg, path=p):
            if q.outcome[0] != "raise" or q.outcome[1] not in ("TypeError", "ValueError"):
                okr = False
            for f, v in before.items():
                if q.heap[obj.oid][f] is not v:
                    okr = False
        if okr:
            ob(f"weighted/rejects-{label}-without-state-change", "pass", "every path raises with all fields untouched")
        else:
            key = {"negative-weight": "negw", "nan-weight": "nanw", "nan-value": "nanx", "str-weight": "strw", "none-value": "nonex"}[label]
            ctx.report_counterexample(f"weighted/rejects-{label}", "astsym-z3", "c10", "r_weighted_reject", [[(1.0, 2.0), (0.0, 3.0)], key], {}, {})

    # ------------------------------------------------------------------ getters
    biased = z3.Bool("biased")
    realizable = z3.And(n >= 1, m >= 1, m <= n, W > 0, Q - Aw * Aw / W >= 0, lo <= hi)
    var_b = (Q - Aw * Aw / W) / W
    specs = {
        "n": lambda q: (z3.BoolVal(False), lambda v: v == n),
        "min": lambda q: (z3.BoolVal(False), lambda v: v == lo),
        "max": lambda q: (z3.BoolVal(False), lambda v: v == hi),
        "weighted_sum": lambda q: (z3.BoolVal(False), lambda v: v == Aw),
        "weighted_mean": lambda q: (z3.BoolVal(False), lambda v: v == Aw / W),
        "weighted_variance": lambda q: (z3.And(z3.Not(biased), m < 2),
                                        lambda v: v == z3.If(biased, var_b, var_b * z3.ToReal(m) / (z3.ToReal(m) - 1))),
        "weighted_stdev": lambda q: (z3.And(z3.Not(biased), m < 2),
                                     lambda v: z3.And(v >= 0, v * v == z3.If(biased, var_b, var_b * z3.ToReal(m) / (z3.ToReal(m) - 1)))),
    }
    for g, mk in specs.items():
        c_g, f_g = eng.find_method(WeightedTally, g)
        args = [biased] if g in ("weighted_variance", "weighted_stdev") else []
        problems, nq = [], 0
        # (a) positively weighted states: equals the definition; (b) only zero weights: must not raise
        for zero in (False, True):
            p = A.Path()
            obj = A.new_obj(p, WeightedTally, inv_fields(n, m, W, Aw, Q, lo, hi, zero=zero))
            p.pc.append(realizable if not zero else z3.And(n >= 1, lo <= hi))
            for q in A.summarize(eng, f_g, args, self_obj=obj, defining_cls=c_g, path=p):
                if q.outcome[0] != "return":
                    r, _ = A.prove(eng, q, False)
                    nq += 1
                    if r != "unsat":
                        problems.append((("zero-weights:" if zero else "") + "raises-" + str(q.outcome[1]), r))
                    continue
                if zero:
                    continue
                nan_cond, pred = mk(q)
                v = q.outcome[1]
                if not A.is_sym(v) and isinstance(v, float) and v != v:
                    r, _ = A.prove(eng, q, nan_cond)
                else:
                    vz = A.to_z3(v)
                    r, _ = A.prove(eng, q, z3.And(z3.Not(nan_cond), pred(vz if g == "n" else A.to_real(vz))))
                nq += 1
                if r != "unsat":
                    problems.append(("value", r))
        name = f"weighted/getter-{g}(definition over the positively weighted observations; never raises, also with total weight 0)"
        if not problems:
            ob(name, "pass", f"{nq} queries", {"getter": g}, nq)
        elif problems[0][1] == "unknown":
            ob(name, "inconclusive", "solver unknown: " + problems[0][0], None, nq)
        else:
            replay_battery(name, "r_weighted", W_BATTERY, problems[0][0])

    # ------------------------------------------------------------------ timestamped variant: delegation lemma
    calls_key = "WeightedTally.register"

    def rec_hook(e, path, obj, args, kwargs):
        path.log.append(("super.register", args[0], args[1]))
        return [(path, ("return", None))]
    eng_t = A.Engine(unroll=2, hooks={calls_key: rec_hook})
    c_tr, f_tr = eng_t.find_method(TimestampWeightedTally, "register")
    t, v = z3.Real("t"), z3.Real("v")
    start, last, lastv = z3.Reals("start last lastv")
    active = z3.Bool("active")

    def ts_state(path, started):
        f = inv_fields(n, m, W, Aw, Q, lo, hi)
        f.update({"_start_time": start if started else math.nan, "_last_timestamp": last if started else math.nan,
                  "_last_value": lastv if started else 0.0, "_active": active if started else True})
        return A.new_obj(path, TimestampWeightedTally, f)

    problems, nq = [], 0
    for started in (True, False):
        p = A.Path()
        obj = ts_state(p, started)
        if started:
            p.pc.append(last >= start)
        before = dict(p.heap[obj.oid])
        for q in A.summarize(eng_t, f_tr, [t, v], self_obj=obj, defining_cls=c_tr, path=p):
            h = q.heap[obj.oid]
            if q.outcome[0] == "raise":
                # only an earlier timestamp may be refused, with everything unchanged
                r, _ = A.prove(eng_t, q, (t < last) if started else z3.BoolVal(False))
                nq += 1
                same = all(h[k] is before[k] for k in before) and not q.log
                if r != "unsat" or q.outcome[1] != "ValueError" or not same:
                    problems.append("refusal")
                continue
            calls = q.log
            if started:
                adv = z3.And(t > last, active)
                # exactly one parent observation (t - last, last value) iff time advanced while active
                if calls:
                    r1, _ = A.prove(eng_t, q, z3.And(adv, calls[0][1] == t - last, calls[0][2] == lastv))
                    r2, _ = A.prove(eng_t, q, A.to_real(h["_last_timestamp"]) == t)
                    nq += 2
                    if r1 != "unsat" or r2 != "unsat" or len(calls) != 1:
                        problems.append("delegation")
                else:
                    r1, _ = A.prove(eng_t, q, z3.Not(adv))
                    nq += 1
                    if r1 != "unsat" or h["_last_timestamp"] is not before["_last_timestamp"]:
                        problems.append("no-delegation")
                r3, _ = A.prove(eng_t, q, z3.And(t >= last, A.to_real(h["_last_value"]) == v,
                                                 A.to_real(h["_start_time"]) == start))
                nq += 1
                if r3 != "unsat":
                    problems.append("bookkeeping")
            else:
                r1, _ = A.prove(eng_t, q, z3.And(A.to_real(h["_start_time"]) == t, A.to_real(h["_last_timestamp"]) == t,
                                                 A.to_real(h["_last_value"]) == v))
                nq += 1
                if r1 != "unsat" or calls:
                    problems.append("first-observation")
    name = "timestamp/delegation-lemma(register(t,v): refuse t<last unchanged; weight t-last of the previous value iff time advanced while active; first time only starts the clock)"
    if not problems:
        ob(name, "pass", f"{nq} queries", None, nq)
    else:
        replay_battery(name, "r_timestamp", T_BATTERY, problems[0])

    # end_observations closes: parent observation up to T, then inactive
    c_e, f_e = eng_t.find_method(TimestampWeightedTally, "end_observations")
    p = A.Path()
    obj = ts_state(p, True)
    T = z3.Real("T")
    p.pc.append(z3.And(last >= start, T >= last, active))
    oke, nq = True, 0
    for q in A.summarize(eng_t, f_e, [T], self_obj=obj, defining_cls=c_e, path=p):
        h = q.heap[obj.oid]
        if q.outcome[0] != "return" or h["_active"] is not False:
            oke = False
            continue
        if q.log:
            r, _ = A.prove(eng_t, q, z3.And(T > last, q.log[0][1] == T - last, q.log[0][2] == lastv))
        else:
            r, _ = A.prove(eng_t, q, T == last)
        nq += 1
        oke = oke and r == "unsat"
    if oke:
        ob("timestamp/end_observations(registers the closing span with the last value, then deactivates)", "pass", f"{nq} queries", None, nq)
    else:
        replay_battery("timestamp/end_observations", "r_timestamp", T_BATTERY, "closing")

    # ------------------------------------------------------------------ bounded histories on the real composition
    K = 2 if ctx.tier == "quick" else 3
    eng_h = A.Engine(unroll=2)
    ts = [z3.Real(f"t{i}") for i in range(K)]
    vs = [z3.Real(f"v{i}") for i in range(K)]
    p = A.Path()
    res = eng_h.apply(p, TimestampWeightedTally, ["h"], {}, None)
    obj, p = res[0][1], res[0][0]
    p.pc.append(z3.And(*[ts[i] <= ts[i + 1] for i in range(K - 1)], T >= ts[-1]))
    c_r, f_r = eng_h.find_method(TimestampWeightedTally, "register")
    c_e2, f_e2 = eng_h.find_method(TimestampWeightedTally, "end_observations")
    states = [p]
    for i in range(K):
        nxt = []
        for q in states:
            for q2 in A.summarize(eng_h, f_r, [ts[i], vs[i]], self_obj=obj, defining_cls=c_r, path=q):
                if q2.outcome[0] == "return":
                    nxt.append(q2)
                else:
                    nxt.append(None)
        states = nxt
    integral = sum((vs[i] * (ts[i + 1] - ts[i]) for i in range(K - 1)), z3.RealVal(0)) + vs[-1] * (T - ts[-1])
    okh, nq, npaths = all(s is not None for s in states), 0, 0
    for q in [s for s in states if s is not None]:
        for q2 in A.summarize(eng_h, f_e2, [T], self_obj=obj, defining_cls=c_e2, path=q):
            npaths += 1
            h = q2.heap[obj.oid]
            if q2.outcome[0] != "return":
                okh = False
                continue
            r, _ = A.prove(eng_h, q2, z3.And(A.to_real(h["_weighted_sum"]) == integral,
                                            A.to_real(h["_sum_of_weights"]) == T - ts[0],
                                            z3.Implies(T > ts[0], A.to_real(h["_weighted_mean"]) * (T - ts[0]) == integral)))
            nq += 1
            okh = okh and r == "unsat" and h["_active"] is False
    name = f"timestamp/bounded-history(K={K} symbolic (t,v) pairs with repeats + close at T: weighted_sum = integral of the step function, total weight = T-t0, mean*(T-t0) = integral)"
    if okh:
        ob(name, "pass", f"{nq} queries over {npaths} paths", {"K": K, "paths": npaths}, nq)
    else:
        replay_battery(name, "r_timestamp", T_BATTERY, "integral")

    # ------------------------------------------------------------------ replay battery as translator validation
    disagree = 0
    for hist in W_BATTERY:
        if ctx.replay("c10", "r_weighted", [hist], {}, {}).get("reproduced"):
            disagree += 1
            ctx.report_counterexample("weighted/battery", "astsym-z3", "c10", "r_weighted", [hist], {}, {})
            break
    for item in T_BATTERY:
        if ctx.replay("c10", "r_timestamp", list(item), {}, {}).get("reproduced"):
            disagree += 1
            ctx.report_counterexample("timestamp/battery", "astsym-z3", "c10", "r_timestamp", list(item), {}, {})
            break
    if ctx.replay("c10", "r_timestamp_reject", [[(1.0, 2.0), (3.0, 1.0)], 2.0], {}, {}).get("reproduced"):
        ctx.report_counterexample("timestamp/reject", "astsym-z3", "c10", "r_timestamp_reject", [[(1.0, 2.0), (3.0, 1.0)], 2.0], {}, {})
    if not disagree:
        ctx.notes.append(f"translator validation: the real classes agree with the exact rational oracle on {len(W_BATTERY)} weighted and "
                         f"{len(T_BATTERY)} timestamped concrete histories (zero weights, repeats, use after closing)")
    for e in (eng, eng_t, eng_h):
        ctx.functions.extend(sorted(e.functions_used))
    ctx.notes.append(f"Engine B: {eng.queries + eng_t.queries + eng_h.queries} z3 queries, "
                     f"{eng.solver_s + eng_t.solver_s + eng_h.solver_s:.2f}s solver time")
    if ctx.obligations:
        ctx.obligations[0].solver_s = eng.solver_s + eng_t.solver_s + eng_h.solver_s
    ctx.bounds = {"weighted": "inductive over exact reals: arbitrary ghost state (n, n+, W, A, Q, min, max) + one register(w,x), "
                              "four cases (W>0 / W=0) x (w>0 / w=0); no bound on history length",
                  "timestamp": f"delegation lemma from an arbitrary state (unbounded) + explicit histories of K={K} symbolic (t,v) pairs closed at T"}
    ctx.assumptions = ["exact real arithmetic (IEEE rounding outside the claim)",
                       "with total weight zero the weighted mean/variance are 0/0: any value or NaN is accepted, raising is not",
                       "sqrt axiomatised (s>=0, s*s=x)"]
    ctx.outside = ["IEEE-754 rounding", "explicit timestamp histories longer than K (covered only through the delegation lemma)"]
