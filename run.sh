#!/bin/bash
# Entry point of every registered check:  ./run.sh <property-id> quick|thorough
#                                         ./run.sh replay <replay-file>
#                                         ./run.sh setup
# Bootstraps the overlay venv (only committed files survive a restore) and
# dispatches to the Python driver.  Exit codes: 0 property held on everything
# explored, 1 VIOLATION (replayed on the real code), 2 inconclusive/harness error.
set -u
HERE="$(cd "$(dirname "${BASH_SOURCE[0]}")" && pwd)"
VENV="$HERE/.venv"
export PIP_NO_INDEX=1
bootstrap() {
  (
    flock 9
    if ! "$VENV/bin/python" -c "import crosshair, z3" >/dev/null 2>&1; then
      rm -rf "$VENV"
      /venv/bin/python -m venv "$VENV" >/dev/null || exit 2
      echo "import site; site.addsitedir('/venv/lib/python3.12/site-packages')" \
        > "$VENV/lib/python3.12/site-packages/_overlay.pth"
      "$VENV/bin/pip" install -q --no-index --find-links /opt/veriftools/wheels \
        crosshair-tool z3-solver cvc5 >/dev/null 2>&1 || exit 2
    fi
  ) 9>"$HERE/.venv.lock"
}
bootstrap || { echo "bootstrap of $VENV failed" >&2; exit 2; }
export PYTHONPATH="$HERE${PYTHONPATH:+:$PYTHONPATH}"
# development aid only (never used by the registered commands): analyse a scratch worktree
if [ -n "${VF_REPO:-}" ]; then export PYTHONPATH="$VF_REPO/src:$PYTHONPATH"; fi
export PYTHONDONTWRITEBYTECODE=1
export PYTHONHASHSEED="${PYTHONHASHSEED:-0}"
if [ "${1:-}" = "setup" ]; then
  "$VENV/bin/python" -c "import crosshair, z3, cvc5, pydsol.core.simulator as s; print('setup ok:', s.__file__)"
  exit $?
fi
exec "$VENV/bin/python" -m vf.main "$@"
