"""./run.sh <property-id> quick|thorough   |   ./run.sh replay <file>"""
import importlib
import os
import sys


def main():
    if len(sys.argv) >= 3 and sys.argv[1] == "replay":
        sys.argv = [sys.argv[0], sys.argv[2]]
        from vf import replay
        return replay.main()
    prop = sys.argv[1].upper()
    tier = sys.argv[2] if len(sys.argv) > 2 else os.environ.get("VERIF_TIER", "quick")
    if tier not in ("quick", "thorough"):
        sys.exit("tier must be quick or thorough")
    from vf.driver import Context
    mod = importlib.import_module("checks." + prop.lower())
    ctx = Context(prop, tier)
    try:
        mod.run(ctx)
    except Exception as e:
        import traceback
        from vf.driver import Obligation
        tb = traceback.format_exc()
        try:
            open("/var/tmp/vf_last_crash.txt", "w").write(tb)
        except OSError:
            pass
        ctx.add(Obligation("driver", "inconclusive", "driver", "check crashed: " + tb[-1500:]))
    sys.exit(ctx.finish())


if __name__ == "__main__":
    main()
