"""Runtime support shared by all harness modules.

A harness function returns True when the property held on the path it executed.
Violations are reported through ``fail(signature, detail)``: the signature is a
*concrete* string naming the failing call site / input class, so that a violation
whose signature is listed in /verif/known_findings.json (status "known") can be
suppressed inside the symbolic run (otherwise CrossHair would stop at the first,
already known, counterexample and mask any new one).  Suppression never hides a
violation with a different signature.
"""
import json
import os

HERE = os.path.dirname(os.path.dirname(os.path.abspath(__file__)))
MODE = os.environ.get("VF_MODE", "symbolic")  # symbolic | replay

FAILS = []          # (signature, detail) recorded on the current run
SUPPRESSED = []     # signatures of known findings met on the current run


def _load_known():
    path = os.path.join(HERE, "known_findings.json")
    try:
        with open(path) as f:
            data = json.load(f)
    except FileNotFoundError:
        return {}
    out = {}
    for e in data.get("findings", []):
        if e.get("status") == "known":
            out[e["signature"]] = e
    return out


KNOWN = _load_known()
# VF_NO_SUPPRESS=1: used when replaying the witness of a known finding
NO_SUPPRESS = os.environ.get("VF_NO_SUPPRESS") == "1"


def fail(signature, detail=None):
    """Record a violation; returns the value the harness should return."""
    if not NO_SUPPRESS and signature in KNOWN:
        SUPPRESSED.append(signature)
        return True
    if MODE == "replay":
        d = detail() if callable(detail) else detail
        FAILS.append((signature, "" if d is None else str(d)))
    else:
        FAILS.append((signature, ""))
    return False


def reset():
    del FAILS[:]
    del SUPPRESSED[:]


def envint(name, default):
    return int(os.environ.get(name, default))


def envstr(name, default):
    return os.environ.get(name, default)
