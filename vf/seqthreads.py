"""Sequentialiser for C04 part 2: a command that OVERLAPS the run thread's own transitions.

Everything is generated from the LIVE source on every run.

The methods named below are fetched with inspect, parsed, and rewritten into generators that
`yield (thread, lineno)` BEFORE every statement (lineno = line in the real file), so that one
`next()` executes exactly one statement of the real code:

   run thread :  SimulatorWorkerThread.run (whole loop, including the wait on the wake-up flag)
                 DEVSSimulator._run
   caller     :  Simulator.start, _start_impl, stop, _stop_impl, run_up_to, run_up_to_including,
                 end_replication (DEVSSimulator's override and the base method)

Only three rewrites change a statement:
   * `self.__wakeup_flag.wait()`            ->  `while not flag.is_set(): yield ('blocked')`
   * an expression statement / return whose value is a call of another rewritten method
     `self.m(...)`, `self._job.m(...)`, `super().m(...)`  ->  `yield from` its generator
   * a `while` loop gets one more yield at the end of its body (the re-evaluation of the test)
Everything else (conditions, assignments, fire(), event execution, the polling loops with sleep())
is the unchanged statement.  A function whose shape the rewriter does not know (nested def,
continue, a second wait) raises ShapeError -> the check is inconclusive.

A Scheduler owns the two generators.  The schedule is DATA: a list of (thread, number of
statements) slices whose lengths are symbolic integers of the harness, followed by a fair
round-robin tail until the caller has finished and the run thread is blocked or has terminated.
`sleep()` of the simulator module is a virtual-clock tick (the caller's polling loops are ordinary
statements and are interleaved like everything else).

The executed order of (thread, lineno) pairs is logged; replay.py/harness re-enacts it on REAL
threads by gating both threads on line events (sys.settrace) - see GatedReplay.
"""
import ast
import inspect
import sys
import textwrap
import threading

from vf.simstubs import ShapeError, _Flag

WORKER_METHODS = ["run"]
CALLER_METHODS = ["start", "_start_impl", "stop", "_stop_impl", "run_up_to", "run_up_to_including", "end_replication"]
GEN_PREFIX = "_vf_g_"


class _Rewriter:
    def __init__(self, tag, callmap):
        self.tag = tag
        self.callmap = callmap        # method name -> generator attribute name
        self.labels = []

    def _yield(self, lineno):
        self.labels.append(lineno)
        return ast.Expr(ast.Yield(ast.Tuple([ast.Constant(self.tag), ast.Constant(lineno)], ast.Load())))

    def _gen_call(self, call):
        """self.m(..) / self._job.m(..) / super().m(..) of a rewritten method -> generator call, else None"""
        if not isinstance(call, ast.Call) or not isinstance(call.func, ast.Attribute):
            return None
        name = call.func.attr
        recv = ast.unparse(call.func.value)
        if name not in self.callmap or recv not in ("self", "self._job", "super()"):
            return None
        target = self.callmap[name]
        if recv == "super()":
            target = target + "_base"
        new = ast.Call(ast.Attribute(call.func.value if recv != "super()" else ast.Name("self", ast.Load()),
                                     target, ast.Load()), call.args, call.keywords)
        return ast.YieldFrom(new)

    def stmts(self, body):
        out = []
        for s in body:
            if isinstance(s, ast.Expr) and isinstance(s.value, ast.Constant):
                continue                    # docstring / bare constant
            if isinstance(s, (ast.FunctionDef, ast.AsyncFunctionDef, ast.ClassDef, ast.Continue)):
                raise ShapeError(f"{type(s).__name__} inside a sequentialised method (line {s.lineno})")
            out.append(self._yield(s.lineno))
            out.append(self.stmt(s))
        return out

    def stmt(self, s):
        if isinstance(s, ast.Expr) and isinstance(s.value, ast.Call):
            fn = ast.unparse(s.value.func)
            if fn.endswith("wakeup_flag.wait"):
                flag = s.value.func.value
                test = ast.UnaryOp(ast.Not(), ast.Call(ast.Attribute(flag, "is_set", ast.Load()), [], []))
                blocked = ast.Expr(ast.Yield(ast.Tuple([ast.Constant("blocked"), ast.Constant(s.lineno)], ast.Load())))
                return ast.While(test, [blocked], [])
            g = self._gen_call(s.value)
            if g is not None:
                return ast.Expr(g)
            return s
        if isinstance(s, ast.Return) and s.value is not None:
            g = self._gen_call(s.value)
            if g is not None:
                return ast.Return(g)
            return s
        if isinstance(s, ast.While):
            body = self.stmts(s.body)
            body.append(self._yield(s.lineno))          # the test is evaluated again
            return ast.While(s.test, body, self.stmts(s.orelse) if s.orelse else [])
        if isinstance(s, ast.For):
            return ast.For(s.target, s.iter, self.stmts(s.body), self.stmts(s.orelse) if s.orelse else [], lineno=s.lineno)
        if isinstance(s, ast.If):
            return ast.If(s.test, self.stmts(s.body), self.stmts(s.orelse) if s.orelse else [])
        if isinstance(s, ast.With):
            return ast.With(s.items, self.stmts(s.body))
        if isinstance(s, ast.Try):
            handlers = [ast.ExceptHandler(h.type, h.name, self.stmts(h.body)) for h in s.handlers]
            return ast.Try(self.stmts(s.body), handlers, self.stmts(s.orelse) if s.orelse else [],
                           self.stmts(s.finalbody) if s.finalbody else [])
        return s


def _genify(cls, name, tag, callmap, newname):
    """source text of a generator version of cls.name (to be compiled inside `class <cls.__name__>:`)"""
    fn = cls.__dict__[name]
    lines, line0 = inspect.getsourcelines(fn)
    tree = ast.parse(textwrap.dedent("".join(lines)))
    ast.increment_lineno(tree, line0 - 1)
    f = tree.body[0]
    rw = _Rewriter(tag, callmap)
    f.body = rw.stmts(f.body) or [ast.Pass()]
    if not any(isinstance(n, (ast.Yield, ast.YieldFrom)) for n in ast.walk(f)):
        f.body.append(ast.Expr(ast.Yield(ast.Constant(None))))
    f.name = newname
    f.decorator_list = []
    ast.fix_missing_locations(tree)
    return ast.unparse(tree), rw.labels, fn.__code__


def _compile_into(cls, srcs, globs):
    """compile method sources inside a class of the same name (so private names mangle alike) and attach them"""
    wrapper = f"class {cls.__name__}:\n" + textwrap.indent("\n\n".join(srcs), "    ")
    loc = {}
    exec(compile(wrapper, f"<sequentialised {cls.__name__}>", "exec"), globs, loc)
    for k, v in loc[cls.__name__].__dict__.items():
        if k.startswith(GEN_PREFIX):
            setattr(cls, k, v)
    return wrapper


class Scheduler:
    """owns the caller generator and the current run-thread object; executes slices and logs the order.

    A generator is always suspended at `yield (thread, L)` placed BEFORE statement L: that label is the thread's
    PENDING statement.  One step = resume once = execute exactly the pending statement."""

    def __init__(self):
        self.worker = None
        self.caller = None
        self.c_pending = None
        self.caller_done = True
        self.order = []            # (thread, lineno) of executed statements, in execution order
        self.steps = 0
        self.cap = 2500
        self.overrun = False
        self.worker_died = None

    def register(self, worker):
        self.worker = worker
        worker._vf_pending = next(worker._vf_gen)         # nothing of the real code has run yet

    def set_caller(self, gen):
        self.caller = gen
        self.caller_done = False
        try:
            self.c_pending = next(gen)
        except StopIteration:
            self.caller_done = True

    def worker_blocked(self):
        w = self.worker
        return w is not None and w._vf_pending is not None and w._vf_pending[0] == "blocked" and not w._vf_flag_is_set()

    def worker_gone(self):
        return self.worker is None or self.worker._vf_pending is None

    def step_worker(self):
        """one statement of the run thread; False if it cannot move (blocked on a clear flag, terminated, none)"""
        w = self.worker
        if self.worker_gone() or self.worker_blocked():
            return False
        if w._vf_pending[0] != "blocked":
            self.order.append(("W", w._vf_pending[1]))
        try:
            w._vf_pending = next(w._vf_gen)
        except StopIteration:
            w._vf_pending = None
        except Exception as e:      # noqa  (an exception that leaves run(): the thread dies)
            w._vf_pending = None
            self.worker_died = type(e).__name__ + ": " + str(e)[:120]
        self.steps += 1
        return True

    def step_caller(self):
        if self.caller_done:
            return False
        if self.c_pending is not None and self.c_pending[1] is not None:
            self.order.append(("C", self.c_pending[1]))
        try:
            self.c_pending = next(self.caller)
        except StopIteration:
            self.caller_done = True
            self.c_pending = None
        self.steps += 1
        return True

    def slice(self, who, n):
        """n statements of one thread (fewer if it cannot move)"""
        i = 0
        while i < n:
            if not (self.step_worker() if who == "W" else self.step_caller()):
                return
            i += 1

    def finish_command(self, stalled=False):
        """fair round-robin until the caller's command has returned; stalled: the run thread makes no progress
        meanwhile (a handler that takes longer than the caller's 'wait at most one second' loops)"""
        while not self.caller_done:
            if self.steps > self.cap:
                self.overrun = True
                return
            self.step_caller()
            if not stalled:
                self.step_worker()

    def quiescent(self):
        return self.caller_done and (self.worker_gone() or self.worker_blocked())

    def tail(self):
        """fair round-robin until the caller is idle and the run thread is blocked or gone"""
        while not self.quiescent():
            if self.steps > self.cap:
                self.overrun = True
                return
            a = self.step_caller()
            b = self.step_worker()
            if not a and not b:
                return


SCHED = None
INSTALLED = {}


def install():
    """sequentialise the live simulator module (symbolic mode); idempotent"""
    global SCHED
    if INSTALLED:
        SCHED = Scheduler()
        INSTALLED["sched"] = SCHED
        return INSTALLED
    import pydsol.core.simulator as simmod
    import pydsol.core.simevent as semod
    from vf import simstubs
    real = simmod.__dict__.get("_vf_real_worker") or simmod.SimulatorWorkerThread
    S, D = simmod.Simulator, simmod.DEVSSimulator
    callmap = {m: GEN_PREFIX + m for m in CALLER_METHODS}
    callmap["_run"] = GEN_PREFIX + "_run"
    labels = {}
    codes = {}
    # caller side -----------------------------------------------------------------------------
    s_srcs, d_srcs = [], []
    for m in CALLER_METHODS:
        if m in S.__dict__:
            newname = GEN_PREFIX + m + ("_base" if m in D.__dict__ else "")
            src, labs, code = _genify(S, m, "C", callmap, newname)
            s_srcs.append(src)
            labels[f"Simulator.{m}"] = labs
            codes[f"Simulator.{m}"] = code
        if m in D.__dict__:
            src, labs, code = _genify(D, m, "C", callmap, GEN_PREFIX + m)
            d_srcs.append(src)
            labels[f"DEVSSimulator.{m}"] = labs
            codes[f"DEVSSimulator.{m}"] = code
    src, labs, code = _genify(D, "_run", "W", callmap, GEN_PREFIX + "_run")
    d_srcs.append(src)
    labels["DEVSSimulator._run"] = labs
    codes["DEVSSimulator._run"] = code
    text_s = _compile_into(S, s_srcs, simmod.__dict__)
    text_d = _compile_into(D, d_srcs, simmod.__dict__)
    # run thread --------------------------------------------------------------------------------
    run_src, labs, code = _genify(real, "run", "W", callmap, "_vf_run_gen")
    labels["SimulatorWorkerThread.run"] = labs
    codes["SimulatorWorkerThread.run"] = code
    if run_src.count("('blocked'") != 1:
        raise ShapeError("run thread: expected exactly one wait on the wake-up flag")
    copied = "\n".join(textwrap.dedent(inspect.getsource(getattr(real, m))) for m in ("cleanup", "is_running", "is_finalized", "wakeup"))
    wsrc = "class SimulatorWorkerThread:\n" + textwrap.indent(
        "def __init__(self, name, job):\n"
        "    self._job = job\n"
        "    self.name = name\n"
        "    self.daemon = False\n"
        "    self._running = False\n"
        "    self._finalized = False\n"
        "    self.__wakeup_flag = _vf_Flag()\n"
        "    self._vf_pending = None\n"
        "    self._vf_gen = self._vf_run_gen()\n"
        "    _vf_seq.SCHED.register(self)\n"
        + copied + "\n"
        "def _vf_flag_is_set(self):\n"
        "    return self.__wakeup_flag.is_set()\n"
        "def is_waiting(self):\n"
        "    return self._vf_pending is not None and self._vf_pending[0] == 'blocked' and not self.__wakeup_flag.is_set()\n"
        "def is_alive(self):\n"
        "    return self._vf_pending is not None\n"
        "def join(self, timeout=None):\n"
        "    pass\n"
        + run_src + "\n", "    ")
    ns = simmod.__dict__
    ns["_vf_Flag"] = _Flag
    ns["_vf_seq"] = sys.modules[__name__]
    if "_vf_real_worker" not in ns:
        ns["_vf_real_worker"] = real
    loc = {}
    exec(compile(wsrc, "<sequentialised SimulatorWorkerThread>", "exec"), ns, loc)
    simmod.SimulatorWorkerThread = loc["SimulatorWorkerThread"]
    clock = simstubs.VirtualClock()
    def _sleep(x, c=clock):
        # a poll = 50 virtual ms ("wait at most 1 s" = 20 polls).  Inside a sequentialised command the sleep is an
        # ordinary statement and the scheduler interleaves; inside ATOMIC caller code (initialize, cleanup, commands
        # issued by listeners) a sleeping caller lets the run thread execute one statement
        c.now += 0.05
        if SCHED is not None and SCHED.caller_done:
            SCHED.step_worker()
    clock.sleep = _sleep
    simmod.time = clock
    simmod.sleep = clock.sleep
    if "narrowed" in simstubs.INSTALLED:
        n = simstubs.INSTALLED["narrowed"]          # the inline-worker stubs were installed first (harness.simmodel)
    else:
        n = simstubs.narrow_bare_excepts(semod.SimEvent, "execute")
    SCHED = Scheduler()
    INSTALLED.update({"sched": SCHED, "clock": clock, "labels": labels, "codes": codes, "narrowed": n,
                      "source": text_s + "\n" + text_d + "\n" + wsrc})
    return INSTALLED


# ------------------------------------------------------------------------------------------------
# replay on REAL threads: both threads are gated on line events so that they execute the logged
# order of statements; nothing of the simulator is rewritten (only time/sleep are virtual, and the
# wake-up Event reports when the run thread blocks).
# ------------------------------------------------------------------------------------------------

class GatedReplay:
    """Re-enact `order` = [(thread 'C'|'W', lineno), ...] on the real threaded simulator.

    A thread that reaches the first line of its next logged statement waits until every earlier
    entry of the order has been COMPLETED (its thread has reached a later gate, blocked in wait(),
    or finished).  After the logged order is exhausted both threads run freely (the symbolic tail
    is a fair schedule; any fair completion is acceptable for the quiescent oracle).
    """

    def __init__(self, order, codes, timeout=20.0):
        self.order = list(order)
        self.codes = {c: n for n, c in codes.items()}        # code object -> name
        self.cv = threading.Condition()
        self.pos = 0                  # entries [0, pos) have been started
        self.running = None           # thread key of the entry in progress (started, not completed)
        self.free = False
        self.timeout = timeout
        self.diverged = None
        self.caller_ident = None

    def _key(self):
        return "C" if threading.get_ident() == self.caller_ident else "W"

    def _complete(self, key):
        # called with cv held: the entry in progress of this thread (if any) is complete
        if self.running == key:
            self.running = None
            self.cv.notify_all()

    def gate(self, lineno):
        key = self._key()
        with self.cv:
            if self.free:
                return
            # next logged entry of this thread
            j = self.pos
            nxt = None
            while j < len(self.order):
                if self.order[j][0] == key:
                    nxt = j
                    break
                j += 1
            if nxt is None:
                # nothing more logged for this thread: its current statement is complete
                self._complete(key)
                if self.pos >= len(self.order):
                    self.free = True
                    self.cv.notify_all()
                return
            if self.order[nxt][1] != lineno:
                return                                  # a line inside the current statement / not a logged one
            self._complete(key)
            ok = self.cv.wait_for(lambda: self.free or (self.pos == nxt and self.running is None), self.timeout)
            if not ok:
                self.diverged = f"thread {key} waited at line {lineno} for entry {nxt}, order stood at {self.pos}"
                self.free = True
                self.cv.notify_all()
                return
            if self.free:
                return
            self.pos = nxt + 1
            self.running = key
            if self.pos >= len(self.order):
                pass

    def blocked(self):
        """the run thread is about to block in wait()"""
        with self.cv:
            self._complete("W")

    def thread_end(self, key):
        with self.cv:
            self._complete(key)

    def release(self):
        with self.cv:
            self.free = True
            self.cv.notify_all()

    # tracing -------------------------------------------------------------------------------------
    def tracer(self, frame, event, arg):
        if frame.f_code in self.codes:
            return self.local
        return None

    def local(self, frame, event, arg):
        if event == "line":
            self.gate(frame.f_lineno)
        elif event == "return" and self.codes.get(frame.f_code) == "SimulatorWorkerThread.run":
            self.thread_end("W")          # the run thread terminates: its last statement is complete
        return self.local
