"""Stand-ins for the simulator's environment, all generated from the LIVE source.

install() is called by simulator harnesses in symbolic mode only (VF_MODE=symbolic);
in replay mode nothing is installed and the real threaded program runs.

1. Inline worker.  The source of SimulatorWorkerThread.run is fetched, its AST must
   have the shape   while not self._finalized: <self.__wakeup_flag.wait()>; BODY...
   BODY (the real statements, unchanged) becomes `_iteration()` of a thread-less class
   with the same name (so `self.__wakeup_flag` mangles identically); wakeup() executes
   iterations in the calling thread until the flag stays clear.  This is the schedule
   "the worker runs to quiescence as soon as it is woken; the caller does not overlap".
   cleanup/is_running/is_finalized/wakeup bodies are copied from the live class.
2. Virtual clock: simulator.time / simulator.sleep are replaced; time() is non-decreasing,
   sleep(x) lets 0.6 s of virtual time pass (polling loops of the form "wait at most one
   second" end after two polls instead of spinning 1000 times under the tracer).
3. Bare `except:` handlers of SimEvent.execute are narrowed to `except Exception:` (the
   symbolic executor steers paths with BaseException subclasses, which a bare except
   swallows and turns into "handler failed").
If a shape test fails ShapeError is raised and the check is inconclusive.
"""
import ast
import inspect
import textwrap


class ShapeError(Exception):
    pass


class _Flag:
    def __init__(self):
        self._f = False

    def set(self):
        self._f = True

    def clear(self):
        self._f = False

    def is_set(self):
        return self._f

    def wait(self, timeout=None):
        return self._f


class VirtualClock:
    def __init__(self):
        self.now = 1000.0

    def time(self):
        self.now += 0.0001
        return self.now

    def sleep(self, x):
        self.now += 0.6


def _method_src(cls, name):
    return textwrap.dedent(inspect.getsource(getattr(cls, name)))


def build_inline_worker(simmod):
    real = simmod.__dict__.get("_vf_real_worker") or simmod.SimulatorWorkerThread
    run_src = _method_src(real, "run")
    fn = ast.parse(run_src).body[0]
    body = [s for s in fn.body if not (isinstance(s, ast.Expr) and isinstance(s.value, ast.Constant))]
    if len(body) != 1 or not isinstance(body[0], ast.While):
        raise ShapeError("SimulatorWorkerThread.run is not a single while loop")
    loop = body[0]
    if ast.unparse(loop.test) != "not self._finalized":
        raise ShapeError("worker loop condition changed: " + ast.unparse(loop.test))
    first = loop.body[0]
    if not (isinstance(first, ast.Expr) and isinstance(first.value, ast.Call)
            and ast.unparse(first.value.func).endswith("wakeup_flag.wait")):
        raise ShapeError("worker loop does not start with wakeup_flag.wait(): " + ast.unparse(first))
    for node in ast.walk(ast.Module(body=loop.body[1:], type_ignores=[])):
        if isinstance(node, ast.Call) and ast.unparse(node.func).endswith(".wait"):
            raise ShapeError("second wait() inside the worker loop")
    iteration = "def _iteration(self):\n" + textwrap.indent(
        "\n".join(ast.unparse(s) for s in loop.body[1:]), "    ")
    copied = "\n".join(_method_src(real, m) for m in ("cleanup", "is_running", "is_finalized"))
    wk = ast.parse(_method_src(real, "wakeup")).body[0]
    wakeup = "def wakeup(self):\n" + textwrap.indent("\n".join(ast.unparse(s) for s in wk.body), "    ") \
        + "\n    self._vf_drain()\n"
    src = "class SimulatorWorkerThread:\n" + textwrap.indent(
        "def __init__(self, name, job):\n"
        "    self._job = job\n"
        "    self.name = name\n"
        "    self.daemon = False\n"
        "    self._running = False\n"
        "    self._finalized = False\n"
        "    self.__wakeup_flag = _vf_Flag()\n"
        "    self._vf_busy = False\n"
        + copied + "\n" + wakeup + "\n"
        "def is_waiting(self):\n"
        "    return not self._vf_busy and not self._finalized\n"
        "def is_alive(self):\n"
        "    return not self._finalized\n"
        "def join(self, timeout=None):\n"
        "    pass\n"
        "def _vf_drain(self):\n"
        "    if self._vf_busy:\n"
        "        return\n"
        "    while self.__wakeup_flag.is_set() and not self._finalized:\n"
        "        self._vf_busy = True\n"
        "        try:\n"
        "            self._iteration()\n"
        "        finally:\n"
        "            self._vf_busy = False\n"
        + iteration + "\n", "    ")
    ns = simmod.__dict__
    ns["_vf_Flag"] = _Flag
    if "_vf_real_worker" not in ns:
        ns["_vf_real_worker"] = real
    code = compile(src, "<inline-worker generated from SimulatorWorkerThread.run>", "exec")
    loc = {}
    exec(code, ns, loc)
    return loc["SimulatorWorkerThread"], src


def narrow_bare_excepts(cls, name):
    """Recompile cls.name from its live source with `except:` -> `except Exception:`."""
    fn = getattr(cls, name)
    src = _method_src(cls, name)
    tree = ast.parse(src)
    n = 0
    for node in ast.walk(tree):
        if isinstance(node, ast.ExceptHandler) and node.type is None:
            node.type = ast.Name("Exception", ast.Load())
            n += 1
    if n == 0:
        return 0
    ast.fix_missing_locations(tree)
    # compile inside a class body so that private names mangle as in the original
    wrapper = f"class {cls.__name__}:\n" + textwrap.indent(ast.unparse(tree), "    ")
    loc = {}
    exec(compile(wrapper, f"<{cls.__name__}.{name} narrowed>", "exec"), fn.__globals__, loc)
    setattr(cls, name, loc[cls.__name__].__dict__[name])
    return n


INSTALLED = {}


def install():
    """Install all stand-ins into the imported pydsol modules (idempotent)."""
    if INSTALLED:
        return INSTALLED
    import pydsol.core.simulator as simmod
    import pydsol.core.simevent as semod
    worker, src = build_inline_worker(simmod)
    simmod.SimulatorWorkerThread = worker
    clock = VirtualClock()
    simmod.time = clock
    simmod.sleep = clock.sleep
    n = narrow_bare_excepts(semod.SimEvent, "execute")
    INSTALLED.update({"inline_worker_src": src, "clock": clock, "narrowed": n})
    return INSTALLED


def quiesce(sim, timeout=5.0):
    """Replay mode (real threads): wait until the worker is waiting again or finalized."""
    import time as _t
    w = getattr(sim, "_Simulator__worker", None)
    t0 = _t.time()
    while _t.time() - t0 < timeout:
        w = getattr(sim, "_Simulator__worker", None)
        if w is None or w.is_finalized() or (w.is_waiting() and not sim.is_starting_or_running()):
            # one more look: the flag may just have been set
            _t.sleep(0.002)
            w2 = getattr(sim, "_Simulator__worker", None)
            if w2 is None or w2.is_finalized() or (w2.is_waiting() and not sim.is_starting_or_running()):
                return True
        _t.sleep(0.001)
    return False
