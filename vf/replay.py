"""Concrete replay of a counterexample on the real code.

  python -m vf.replay --spec '<json>'      (driver)
  python -m vf.replay <replays/ID-hash.json>  (by hand / replay_cmd_template)

Runs the harness function with VF_MODE=replay: plain Python values, no symbolic
execution; harnesses drop their stand-ins in this mode wherever the property is
about the real threaded program.  Exit 1 when the violation reproduces.
"""
import importlib.util
import json
import os
import sys
import traceback


def main():
    if sys.argv[1] == "--spec":
        spec = json.loads(sys.argv[2])
    else:
        spec = json.load(open(sys.argv[1]))
        for k, v in spec.get("env", {}).items():
            os.environ[k] = v
    os.environ["VF_MODE"] = "replay"
    # the code under test prints (warnings, tracebacks of handler faults): discard it process-wide
    # (contextlib.redirect_stdout is not thread-safe and the run thread prints too)
    out = sys.stdout
    if os.environ.get("VF_REPLAY_VERBOSE") != "1":
        sys.stdout = open(os.devnull, "w")
        sys.stderr = sys.stdout
    here = os.path.dirname(os.path.dirname(os.path.abspath(__file__)))
    src = os.path.join(here, "harness", spec["module"] + ".py")
    sp = importlib.util.spec_from_file_location("harness_" + spec["module"], src)
    mod = importlib.util.module_from_spec(sp)
    sys.modules[sp.name] = mod
    sp.loader.exec_module(mod)
    import vf.rt as rt
    rt.reset()
    res = {"reproduced": False, "fails": [], "suppressed": []}
    try:
        ok = getattr(mod, spec["fn"])(*spec.get("args", []), **spec.get("kwargs", {}))
        res["returned"] = bool(ok)
        res["fails"] = list(rt.FAILS)
        if not ok and not rt.FAILS:
            res["fails"] = [[spec.get("property", "?") + ":harness-returned-false", ""]]
    except BaseException as e:       # a harness fault type may derive from BaseException (C05 ground obligations)
        if isinstance(e, (SystemExit, KeyboardInterrupt)):
            raise
        tb = traceback.extract_tb(e.__traceback__)
        where = ""
        for fr in reversed(tb):
            if "/pydsol/" in fr.filename:
                where = f"{os.path.basename(fr.filename)}:{fr.name}"
                break
        sig = f"{spec.get('property') or spec['module'].upper()[:3]}:exception:{type(e).__name__}:{where}"
        res["fails"] = list(rt.FAILS) + [[sig, f"{type(e).__name__}: {e}"]]
    res["suppressed"] = sorted(set(rt.SUPPRESSED))
    res["reproduced"] = bool(res["fails"])
    print("REPLAY-RESULT " + json.dumps(res, default=repr), file=out)
    for sig, d in res["fails"]:
        print(f"FAIL {sig}: {d}", file=out)
    out.flush()
    # real (non-daemon) worker threads of simulators that never ended would keep the process alive
    os._exit(1 if res["reproduced"] else 0)


if __name__ == "__main__":
    main()
