"""Engine B - astsym: path-forking symbolic evaluation of the LIVE source of a function
into z3 terms (exact reals / mathematical ints), producing a path summary:

    [Path(pc=[z3 bool...], outcome=('return', value) | ('raise', 'TypeName'), objects)]

Numbers are z3 Real/Int terms or concrete Python numbers; NaN/inf only occur as concrete
Python floats (a symbolic real is a finite number by construction).  Python exceptions
are part of the semantics (ZeroDivisionError on / // %, ValueError of math.log/sqrt, ...).
Transcendental functions are uninterpreted functions; every use instantiates the axioms
listed in AXIOMS (recorded per summary).  Unsupported constructs raise Unsupported: the
check that needed them becomes inconclusive - never silently passing.
"""
import ast
import copy
import inspect
import math
import textwrap

import z3


import os as _os
DEBUG = _os.environ.get("VF_ASTSYM_DEBUG") == "1"


class Unsupported(Exception):
    pass


class UnwindingExceeded(Exception):
    pass


R = z3.RealSort()
I = z3.IntSort()
UF = {
    "sqrt": z3.Function("sqrt", R, R),
    "log": z3.Function("log", R, R),
    "exp": z3.Function("exp", R, R),
    "pow": z3.Function("pow", R, R, R),
    "erf": z3.Function("erf", R, R),
    "inv_cdf": z3.Function("inv_cdf", R, R),
    "gammaf": z3.Function("gammaf", R, R),
    "lgamma": z3.Function("lgamma", R, R),
    "erf_inv": z3.Function("erf_inv", R, R),
}
AXIOMS = {
    "sqrt": "x >= 0: sqrt(x) >= 0 and sqrt(x)*sqrt(x) == x; strictly increasing",
    "log": "x > 0: exp(log(x)) == x; log(x) < 0 <=> x < 1; log(1) == 0; strictly increasing",
    "exp": "exp(x) > 0; log(exp(x)) == x; exp(x) >= 1 <=> x >= 0; strictly increasing",
    "pow": "x > 0: pow(x,y) > 0 and pow(x,y) == exp(y*log(x))",
    "erf": "-1 < erf(x) < 1; erf(-x) == -erf(x); erf(0) == 0; strictly increasing",
    "inv_cdf": "0 < p < 1: inv_cdf(p) > 0 <=> p > 1/2; strictly increasing",
    "gammaf": "x > 0: gamma(x) > 0",
}


def _is_mark(v, tag):
    return isinstance(v, tuple) and len(v) > 0 and isinstance(v[0], str) and v[0] == tag


def _is_raise(v):
    return _is_mark(v, "__raise__")


def is_sym(v):
    return isinstance(v, z3.ExprRef)


def is_num(v):
    return isinstance(v, (int, float)) and not isinstance(v, bool)


def to_z3(v):
    if is_sym(v):
        return v
    if isinstance(v, bool):
        return z3.BoolVal(v)
    if isinstance(v, int):
        return z3.IntVal(v)
    if isinstance(v, float):
        if v != v or v in (math.inf, -math.inf):
            raise Unsupported("nan/inf mixed with a symbolic value")
        return z3.RealVal(repr(v)) if v != int(v) or abs(v) > 1e15 else z3.RealVal(int(v))
    raise Unsupported(f"cannot lift {type(v).__name__} to z3")


def to_real(v):
    e = to_z3(v)
    if z3.is_int(e):
        return z3.ToReal(e)
    return e


def is_real_term(v):
    return is_sym(v) and z3.is_real(v)


def is_int_term(v):
    return is_sym(v) and z3.is_int(v)


def is_bool_term(v):
    return is_sym(v) and z3.is_bool(v)


class SObj:
    """handle of a symbolic instance of a real class; the fields live in Path.heap[oid], so a
    handle stays valid in every fork of the path (frames never need remapping)"""
    _next = [0]

    def __init__(self, cls, oid=None):
        self.cls = cls
        if oid is None:
            SObj._next[0] += 1
            oid = SObj._next[0]
        self.oid = oid

    def __deepcopy__(self, memo):
        return self

    def __repr__(self):
        return f"SObj<{self.cls.__name__}#{self.oid}>"


def new_obj(path, cls, fields=None):
    o = SObj(cls)
    path.heap[o.oid] = dict(fields or {})
    return o


class StateFields(dict):
    """fields of a symbolic pre/post state: the dict holds EVERY attribute (constructor defaults + invariant fields, so
    new_obj(..) copies all of them), while items() iterates the invariant fields only - the lemmas compare those"""

    def __init__(self, defaults, inv):
        dict.__init__(self, defaults)
        dict.update(self, inv)
        self.inv_keys = list(inv)

    def items(self):
        return [(k, self[k]) for k in self.inv_keys]

    def update(self, other=(), **kw):
        other = dict(other, **kw)
        dict.update(self, other)
        for k in other:
            if k not in self.inv_keys:
                self.inv_keys.append(k)


def ctor_defaults(cls, *args, **kw):
    """primitive-valued attributes of a really constructed instance: a symbolic state that overrides only the
    fields of its invariant then still has every other attribute __init__ creates (caches, flags, names)"""
    try:
        inst = cls(*args, **kw)
    except Exception:
        return {}
    out = {}
    for k, v in vars(inst).items():
        if v is None or isinstance(v, (bool, int, float, str)):
            out[k] = v
    return out


class Path:
    def __init__(self):
        self.pc = []
        self.objects = {}       # name -> SObj handle (roots)
        self.heap = {}          # oid -> {field: value}
        self.outcome = None
        self.axioms = set()
        self.uf_args = {}       # uf name -> list of arg terms (for pairwise monotonicity)
        self.draws = 0          # consumption counters (stream stubs)
        self.log = []

    def clone(self):
        p = Path()
        p.pc = list(self.pc)
        p.objects = dict(self.objects)
        p.heap = {k: dict(v) for k, v in self.heap.items()}
        p.outcome = self.outcome
        p.axioms = set(self.axioms)
        p.uf_args = {k: list(v) for k, v in self.uf_args.items()}
        p.draws = self.draws
        p.log = list(self.log)
        return p


class Frame:
    def __init__(self, fn_globals, defining_cls, self_obj):
        self.locals = {}
        self.globals = fn_globals
        self.cls = defining_cls
        self.self_obj = self_obj


class Engine:
    def __init__(self, unroll=4, solver_timeout_ms=20000, hooks=None):
        self.unroll = unroll
        self.solver = z3.Solver()
        self.solver.set("timeout", solver_timeout_ms)
        self.prove_timeout_ms = 60000
        self.hooks = hooks or {}           # qualified callable name -> python handler(engine, path, args, kwargs) -> [(path, value)]
        self.queries = 0
        self.solver_s = 0.0
        self.fresh_n = 0
        self.source_cache = {}
        self.functions_used = set()

    # ----------------------------------------------------------------- solver
    def feasible(self, path, extra=None):
        import time
        t0 = time.time()
        self.solver.push()
        try:
            for c in path.pc:
                self.solver.add(c)
            if extra is not None:
                self.solver.add(extra)
            r = self.solver.check()
        finally:
            self.solver.pop()
        self.queries += 1
        self.solver_s += time.time() - t0
        return str(r) != "unsat"     # unknown counts as feasible (sound for 'never raises' style queries)

    def fresh(self, name, sort=R):
        self.fresh_n += 1
        return z3.Const(f"{name}!{self.fresh_n}", sort)

    # ----------------------------------------------------------------- forking helpers
    def fork_bool(self, path, cond):
        """returns [(path, True/False)] for a condition that may be symbolic"""
        if not is_sym(cond):
            return [(path, bool(cond))]
        cond = z3.simplify(cond)
        if z3.is_true(cond):
            return [(path, True)]
        if z3.is_false(cond):
            return [(path, False)]
        out = []
        if self.feasible(path, cond):
            p1 = path.clone()
            p1.pc.append(cond)
            out.append((p1, True))
        if self.feasible(path, z3.Not(cond)):
            p2 = path
            p2.pc.append(z3.Not(cond))
            out.append((p2, False))
        return out

    def truth(self, v):
        """python truthiness as concrete bool or z3 bool"""
        if is_sym(v):
            if z3.is_bool(v):
                return v
            return v != 0
        return bool(v)

    # ----------------------------------------------------------------- uninterpreted functions
    def uf(self, path, name, *args):
        args = [to_real(a) for a in args]
        t = UF[name](*args)
        path.axioms.add(name)
        lst = path.uf_args.setdefault(name, [])
        if not any(a is args[0] or a.eq(args[0]) for a in lst) and len(args) == 1:
            # pairwise strict monotonicity against earlier arguments of the same function
            for a in lst:
                path.pc.append(z3.And(z3.Implies(a < args[0], UF[name](a) < t),
                                      z3.Implies(a > args[0], UF[name](a) > t),
                                      z3.Implies(a == args[0], UF[name](a) == t)))
            lst.append(args[0])
        x = args[0]
        if name == "sqrt":
            path.pc.append(z3.And(t >= 0, t * t == x))
        elif name == "log":
            path.pc.append(z3.And(UF["exp"](t) == x, (t < 0) == (x < 1), (t == 0) == (x == 1)))
        elif name == "exp":
            path.pc.append(z3.And(t > 0, UF["log"](t) == x, (t >= 1) == (x >= 0), (t == 1) == (x == 0)))
        elif name == "pow":
            y = args[1]
            path.pc.append(z3.Implies(x > 0, z3.And(t > 0, t == UF["exp"](y * UF["log"](x)))))
            path.pc.append(z3.Implies(z3.And(x > 0, y == 0), t == 1))
        elif name == "erf":
            path.pc.append(z3.And(t > -1, t < 1, UF["erf"](-x) == -t, (t == 0) == (x == 0), (t > 0) == (x > 0)))
        elif name == "inv_cdf":
            path.pc.append(z3.And((t > 0) == (x > z3.RealVal("1/2")), (t == 0) == (x == z3.RealVal("1/2"))))
        elif name == "gammaf":
            path.pc.append(z3.Implies(x > 0, t > 0))
        return t

    # ----------------------------------------------------------------- source access
    def fn_ast(self, fn):
        key = getattr(fn, "__qualname__", repr(fn)) + "@" + getattr(fn, "__module__", "")
        if key not in self.source_cache:
            src = textwrap.dedent(inspect.getsource(fn))
            tree = ast.parse(src).body[0]
            if not isinstance(tree, ast.FunctionDef):
                raise Unsupported("not a function: " + key)
            self.source_cache[key] = (tree, src)
            import hashlib
            self.functions_used.add(f"{fn.__module__}.{fn.__qualname__}@{hashlib.sha1(src.encode()).hexdigest()[:12]}")
        return self.source_cache[key][0]

    def find_method(self, cls, name, after=None):
        """(defining class, function) following the MRO; after=C: start after C (super())"""
        mro = cls.__mro__
        start = 0
        if after is not None:
            start = mro.index(after) + 1
        for c in mro[start:]:
            if name in c.__dict__:
                f = c.__dict__[name]
                if isinstance(f, (staticmethod, classmethod)):
                    f = f.__func__
                if isinstance(f, property):
                    f = f.fget
                return c, f
        raise Unsupported(f"no method {name} on {cls.__name__}")

    # ----------------------------------------------------------------- calling
    def call_function(self, path, fn, args, kwargs, self_obj=None, defining_cls=None):
        """symbolically execute python function fn; returns [(path, outcome)] with outcome
        ('return', v) or ('raise', name)"""
        tree = self.fn_ast(fn)
        frame = Frame(fn.__globals__, defining_cls, self_obj)
        params = [a.arg for a in tree.args.args]
        defaults = tree.args.defaults
        vals = list(args)
        if self_obj is not None:
            vals = [self_obj] + vals
        for i, pname in enumerate(params):
            if i < len(vals):
                frame.locals[pname] = vals[i]
            elif pname in kwargs:
                frame.locals[pname] = kwargs[pname]
            else:
                di = i - (len(params) - len(defaults))
                if di < 0:
                    raise Unsupported(f"missing argument {pname} for {fn.__qualname__}")
                frame.locals[pname] = self.const_expr(defaults[di], frame)
        for kw in tree.args.kwonlyargs:
            if kw.arg in kwargs:
                frame.locals[kw.arg] = kwargs[kw.arg]
        if tree.args.kwarg is not None:
            frame.locals[tree.args.kwarg.arg] = {k: v for k, v in kwargs.items() if k not in params}
        results = []
        for p, out in self.exec_block(path, tree.body, frame):
            if out is None:
                out = ("return", None)
            results.append((p, out))
        return results

    def call_function_new(self, path, nf, cls, args, kwargs, defining_cls):
        """run a Python-level __new__(cls, ...) ; `super().__new__(cls, x, **kw)` creates the instance"""
        tree = self.fn_ast(nf)
        frame = Frame(nf.__globals__, defining_cls, None)
        frame.new_cls = cls
        params = [a.arg for a in tree.args.args]
        vals = [cls] + list(args)
        defaults = tree.args.defaults
        for i, pname in enumerate(params):
            if i < len(vals):
                frame.locals[pname] = vals[i]
            elif pname in kwargs:
                frame.locals[pname] = kwargs[pname]
            else:
                di = i - (len(params) - len(defaults))
                if di < 0:
                    raise Unsupported("missing argument " + pname)
                frame.locals[pname] = self.const_expr(defaults[di], frame)
        if tree.args.kwarg is not None:
            frame.locals[tree.args.kwarg.arg] = {k: v for k, v in kwargs.items() if k not in params}
        out = []
        for p, o in self.exec_block(path, tree.body, frame):
            out.append((p, o if o is not None else ("return", None)))
        return out

    def const_expr(self, node, frame):
        try:
            return ast.literal_eval(node)
        except Exception:
            pass
        code = compile(ast.Expression(node), "<default>", "eval")
        return eval(code, frame.globals)

    def call_method(self, path, obj, name, args, kwargs, after=None):
        c, f = self.find_method(obj.cls, name, after)
        hook = self.hooks.get(f"{c.__name__}.{name}")
        if hook is not None:
            return hook(self, path, obj, args, kwargs)
        return self.call_function(path, f, args, kwargs, self_obj=obj, defining_cls=c)

    # ----------------------------------------------------------------- statements
    def exec_block(self, path, stmts, frame):
        """returns [(path, outcome-or-None)]; frames are forked together with paths"""
        states = [(path, frame, None)]
        for st in stmts:
            nxt = []
            for p, fr, out in states:
                if out is not None:
                    nxt.append((p, fr, out))
                    continue
                nxt.extend(self.exec_stmt(p, st, fr))
            states = nxt
        # publish the frame of each surviving path back through the path object
        res = []
        for p, fr, out in states:
            p._frame = fr
            res.append((p, out))
        return res

    def _fork_frame(self, newp, oldp, fr):
        """after path.clone(): remap frame references to the cloned objects"""
        if newp is oldp:
            return fr
        nf = Frame(fr.globals, fr.cls, fr.self_obj)
        nf.locals = {k: (list(v) if isinstance(v, list) else v) for k, v in fr.locals.items()}
        return nf

    def exec_stmt(self, path, st, frame):
        if isinstance(st, ast.Expr):
            if isinstance(st.value, ast.Constant):
                return [(path, frame, None)]
            out = []
            for p, fr, v in self.eval(path, st.value, frame):
                out.append((p, fr, v if _is_raise(v) else None))
            return [(p, fr, ("raise", o[1]) if o else None) for p, fr, o in out]
        if isinstance(st, ast.Pass):
            return [(path, frame, None)]
        if isinstance(st, (ast.Assign, ast.AnnAssign, ast.AugAssign)):
            if isinstance(st, ast.AugAssign):
                value_node = ast.BinOp(left=self._load(st.target), op=st.op, right=st.value)
                targets = [st.target]
            elif isinstance(st, ast.AnnAssign):
                if st.value is None:
                    return [(path, frame, None)]
                value_node, targets = st.value, [st.target]
            else:
                value_node, targets = st.value, st.targets
            out = []
            for p, fr, v in self.eval(path, value_node, frame):
                if _is_raise(v):
                    out.append((p, fr, ("raise", v[1])))
                    continue
                for t in targets:
                    self.assign(p, fr, t, v)
                out.append((p, fr, None))
            return out
        if isinstance(st, ast.Return):
            if st.value is None:
                return [(path, frame, ("return", None))]
            out = []
            for p, fr, v in self.eval(path, st.value, frame):
                if _is_raise(v):
                    out.append((p, fr, ("raise", v[1])))
                else:
                    out.append((p, fr, ("return", v)))
            return out
        if isinstance(st, ast.Raise):
            name = "Exception"
            e = st.exc
            if isinstance(e, ast.Call):
                e = e.func
            if isinstance(e, ast.Name):
                name = e.id
            elif isinstance(e, ast.Attribute):
                name = e.attr
            return [(path, frame, ("raise", name))]
        if isinstance(st, ast.If):
            out = []
            for p, fr, c in self.eval(path, st.test, frame):
                if _is_raise(c):
                    out.append((p, fr, ("raise", c[1])))
                    continue
                for p2, b in self.fork_bool(p, self.truth(c)):
                    fr2 = self._fork_frame(p2, p, fr)
                    body = st.body if b else st.orelse
                    for p3, o3 in self.exec_block(p2, body, fr2):
                        out.append((p3, p3._frame, o3))
            return out
        if isinstance(st, ast.While):
            return self.exec_while(path, st, frame, self.unroll)
        if isinstance(st, ast.For):
            return self.exec_for(path, st, frame)
        if isinstance(st, (ast.Import, ast.ImportFrom, ast.Global, ast.Nonlocal)):
            return [(path, frame, None)]
        if isinstance(st, ast.Break):
            return [(path, frame, ("break", None))]
        if isinstance(st, ast.Continue):
            return [(path, frame, ("continue", None))]
        raise Unsupported("statement " + type(st).__name__)

    def _load(self, target):
        t = copy.deepcopy(target)
        t.ctx = ast.Load()
        return t

    def exec_while(self, path, st, frame, budget, concrete_iters=0):
        """bounded unrolling: an iteration costs one unit of the unwinding budget when its condition is symbolic
        OR its body took a symbolic decision (the path condition grew); purely concrete iterations are free up to
        a hard cap.  A path that wants to go on with an empty budget ends in the outcome ('unwind', None)."""
        out = []
        for p, fr, c in self.eval(path, st.test, frame):
            tc = self.truth(c)
            sym_cond = is_sym(tc)
            if not sym_cond:
                if concrete_iters > 5000:
                    raise Unsupported("concrete loop does not terminate")
            for p2, b in self.fork_bool(p, tc):
                fr2 = self._fork_frame(p2, p, fr)
                if not b:
                    for p3, o3 in self.exec_block(p2, st.orelse, fr2):
                        out.append((p3, p3._frame, o3))
                    continue
                if budget <= 0:
                    out.append((p2, fr2, ("unwind", None)))
                    continue
                npc = len(p2.pc)
                for p3, o3 in self.exec_block(p2, st.body, fr2):
                    if o3 is not None and o3[0] == "break":
                        out.append((p3, p3._frame, None))
                    elif o3 is not None and o3[0] != "continue":
                        out.append((p3, p3._frame, o3))
                    else:
                        cost = 1 if (sym_cond or len(p3.pc) > npc) else 0
                        out.extend(self.exec_while(p3, st, p3._frame, budget - cost, concrete_iters + 1))
        return out

    def exec_for(self, path, st, frame):
        it = st.iter
        if not (isinstance(it, ast.Call) and isinstance(it.func, ast.Name) and it.func.id == "range"):
            # concrete iterable?
            res = []
            for p, fr, seq in self.eval(path, it, frame):
                if is_sym(seq) or isinstance(seq, SObj):
                    raise Unsupported("for over a non-range, non-concrete iterable")
                try:
                    seq = list(seq)          # any concrete iterable (enumerate, zip, dict views, ...)
                except TypeError:
                    raise Unsupported("for over a non-iterable value")
                states = [(p, fr, None)]
                for item in seq:
                    nxt = []
                    for p1, fr1, o1 in states:
                        if o1 is not None:
                            nxt.append((p1, fr1, o1))
                            continue
                        self.assign(p1, fr1, st.target, item)
                        for p2, o2 in self.exec_block(p1, st.body, fr1):
                            if o2 is not None and o2[0] == "continue":
                                o2 = None
                            nxt.append((p2, p2._frame, o2))
                    states = nxt
                res.extend((p1, fr1, None if (o1 and o1[0] == "break") else o1) for p1, fr1, o1 in states)
            return res
        out = []
        for p, fr, nv in self.eval(path, it.args[-1] if len(it.args) <= 2 else None, frame):
            lo = 0
            if len(it.args) == 2:
                lo = self.eval_concrete(it.args[0], fr)
            if len(it.args) > 2:
                raise Unsupported("range with step")
            # iterate k = lo, lo+1, ... forking on k < n
            states = [(p, fr)]
            k = lo
            count = 0
            while states:
                nxt = []
                for p1, fr1 in states:
                    cond = (k < nv) if not is_sym(nv) else (z3.IntVal(k) < nv if z3.is_int(nv) else to_real(k) < nv)
                    for p2, b in self.fork_bool(p1, cond):
                        fr2 = self._fork_frame(p2, p1, fr1)
                        if not b:
                            out.append((p2, fr2, None))
                            continue
                        if count >= max(self.unroll, 12) and is_sym(nv):
                            out.append((p2, fr2, ("unwind", None)))
                            continue
                        self.assign(p2, fr2, st.target, k)
                        for p3, o3 in self.exec_block(p2, st.body, fr2):
                            if o3 is not None and o3[0] == "break":
                                out.append((p3, p3._frame, None))
                            elif o3 is not None and o3[0] != "continue":
                                out.append((p3, p3._frame, o3))
                            else:
                                nxt.append((p3, p3._frame))
                states = nxt
                k += 1
                count += 1
                if count > 64:
                    raise Unsupported("for loop too long")
        return out

    def eval_concrete(self, node, frame):
        r = self.eval(Path(), node, frame)
        if len(r) != 1 or is_sym(r[0][2]):
            raise Unsupported("expected a concrete value")
        return r[0][2]

    def assign(self, path, frame, target, value):
        if isinstance(target, ast.Name):
            frame.locals[target.id] = value
        elif isinstance(target, ast.Attribute):
            objs = self.eval(path, target.value, frame)
            if len(objs) != 1:
                raise Unsupported("forking attribute target")
            obj = objs[0][2]
            if not isinstance(obj, SObj):
                raise Unsupported("attribute assignment on " + type(obj).__name__)
            path.heap[obj.oid][self.mangle(target.attr, frame)] = value
        elif isinstance(target, (ast.Tuple, ast.List)):
            if is_sym(value) or len(value) != len(target.elts):
                raise Unsupported("tuple unpacking of symbolic/mismatched value")
            for t, v in zip(target.elts, value):
                self.assign(path, frame, t, v)
        elif isinstance(target, ast.Subscript):
            cs = self.eval(path, target.value, frame)
            ks = self.eval(path, target.slice, frame)
            if len(cs) != 1 or len(ks) != 1 or is_sym(cs[0][2]) or is_sym(ks[0][2]):
                raise Unsupported("symbolic subscript assignment")
            cs[0][2][ks[0][2]] = value
        else:
            raise Unsupported("assignment target " + type(target).__name__)

    def mangle(self, attr, frame):
        if attr.startswith("__") and not attr.endswith("__") and frame.cls is not None:
            return f"_{frame.cls.__name__.lstrip('_')}{attr}"
        return attr

    # ----------------------------------------------------------------- expressions
    def eval(self, path, node, frame):
        """returns [(path, frame, value)]; value ('__raise__', name) signals an exception"""
        m = getattr(self, "e_" + type(node).__name__, None)
        if m is None:
            raise Unsupported("expression " + type(node).__name__)
        return m(path, node, frame)

    def seq_eval(self, path, nodes, frame):
        """evaluate nodes left to right; returns [(path, frame, [values]) or raise marker]"""
        states = [(path, frame, [])]
        for n in nodes:
            nxt = []
            for p, fr, vals in states:
                if vals and _is_raise(vals[-1]):
                    nxt.append((p, fr, vals))
                    continue
                for p2, fr2, v in self.eval(p, n, fr):
                    nxt.append((p2, fr2, vals + [v]))
            states = nxt
        return states

    @staticmethod
    def raised(vals):
        for v in vals:
            if _is_raise(v):
                return v
        return None

    def e_Constant(self, path, node, frame):
        return [(path, frame, node.value)]

    def e_JoinedStr(self, path, node, frame):
        return [(path, frame, "<fstring>")]

    def e_Name(self, path, node, frame):
        if node.id in frame.locals:
            return [(path, frame, frame.locals[node.id])]
        if node.id in frame.globals:
            return [(path, frame, frame.globals[node.id])]
        import builtins
        if hasattr(builtins, node.id):
            return [(path, frame, getattr(builtins, node.id))]
        raise Unsupported("unknown name " + node.id)

    def e_Tuple(self, path, node, frame):
        out = []
        for p, fr, vals in self.seq_eval(path, node.elts, frame):
            r = self.raised(vals)
            out.append((p, fr, r if r else tuple(vals)))
        return out

    def e_List(self, path, node, frame):
        out = []
        for p, fr, vals in self.seq_eval(path, node.elts, frame):
            r = self.raised(vals)
            out.append((p, fr, r if r else list(vals)))
        return out

    def e_Attribute(self, path, node, frame):
        out = []
        for p, fr, obj in self.eval(path, node.value, frame):
            if _is_raise(obj):
                out.append((p, fr, obj))
                continue
            if isinstance(obj, SObj):
                name = self.mangle(node.attr, fr)
                if name in p.heap[obj.oid]:
                    out.append((p, fr, p.heap[obj.oid][name]))
                    continue
                # property or method or class attribute
                for c in obj.cls.__mro__:
                    if name in c.__dict__:
                        a = c.__dict__[name]
                        if isinstance(a, property):
                            for p2, o in self.call_function(p, a.fget, [], {}, self_obj=obj, defining_cls=c):
                                fr2 = self._fork_frame(p2, p, fr) if p2 is not p else fr
                                out.append((p2, fr2, o[1] if o[0] == "return" else ("__raise__", o[1])))
                            break
                        if inspect.isfunction(a):
                            out.append((p, fr, ("__bound__", obj, name, None)))
                            break
                        if isinstance(a, classmethod):
                            out.append((p, fr, getattr(obj.cls, name)))      # bound to the real class
                            break
                        if isinstance(a, staticmethod):
                            out.append((p, fr, a.__func__))
                            break
                        out.append((p, fr, a))
                        break
                else:
                    out.append((p, fr, ("__raise__", "AttributeError")))
                continue
            if _is_mark(obj, "__super__"):
                out.append((p, fr, ("__bound__", obj[1], node.attr, obj[2])))
                continue
            if is_sym(obj):
                raise Unsupported("attribute of a symbolic number: " + node.attr)
            out.append((p, fr, getattr(obj, node.attr)))
        return out

    def e_Lambda(self, path, node, frame):
        env = dict(frame.globals)
        env.update({k: v for k, v in frame.locals.items() if not is_sym(v) and not isinstance(v, SObj)})
        return [(path, frame, eval(compile(ast.Expression(node), "<lambda>", "eval"), env))]

    def e_UnaryOp(self, path, node, frame):
        out = []
        for p, fr, v in self.eval(path, node.operand, frame):
            if _is_raise(v):
                out.append((p, fr, v))
            elif isinstance(v, SObj) and isinstance(node.op, (ast.USub, ast.UAdd)):
                for p2, o in self.call_method(p, v, "__neg__" if isinstance(node.op, ast.USub) else "__pos__", [], {}):
                    out.append((p2, self._fork_frame(p2, p, fr), o[1] if o[0] == "return" else ("__raise__", o[1])))
            elif isinstance(node.op, ast.Not):
                t = self.truth(v)
                out.append((p, fr, z3.Not(t) if is_sym(t) else (not t)))
            elif isinstance(node.op, ast.USub):
                out.append((p, fr, -v))
            elif isinstance(node.op, ast.UAdd):
                out.append((p, fr, v))
            else:
                raise Unsupported("unary " + type(node.op).__name__)
        return out

    def e_BoolOp(self, path, node, frame):
        is_and = isinstance(node.op, ast.And)
        results = []
        states = [(path, frame)]
        for i, n in enumerate(node.values):
            nxt = []
            for p, fr in states:
                for p2, fr2, v in self.eval(p, n, fr):
                    if _is_raise(v):
                        results.append((p2, fr2, v))
                        continue
                    if i == len(node.values) - 1:
                        results.append((p2, fr2, v))
                        continue
                    for p3, b in self.fork_bool(p2, self.truth(v)):
                        fr3 = self._fork_frame(p3, p2, fr2)
                        if b != is_and:
                            results.append((p3, fr3, v if not is_sym(v) else b))   # short circuit
                        else:
                            nxt.append((p3, fr3))
            states = nxt
        return results

    def e_IfExp(self, path, node, frame):
        out = []
        for p, fr, c in self.eval(path, node.test, frame):
            if _is_raise(c):
                out.append((p, fr, c))
                continue
            for p2, b in self.fork_bool(p, self.truth(c)):
                fr2 = self._fork_frame(p2, p, fr)
                out.extend(self.eval(p2, node.body if b else node.orelse, fr2))
        return out

    def e_Compare(self, path, node, frame):
        out = []
        for p, fr, vals in self.seq_eval(path, [node.left] + node.comparators, frame):
            r = self.raised(vals)
            if r:
                out.append((p, fr, r))
                continue
            if len(node.ops) == 1 and (isinstance(vals[0], SObj) or isinstance(vals[1], SObj)) \
                    and not isinstance(node.ops[0], (ast.Is, ast.IsNot, ast.In, ast.NotIn)):
                out.extend(self.obj_compare(p, fr, node.ops[0], vals[0], vals[1]))
                continue
            acc = True
            for op, a, b in zip(node.ops, vals, vals[1:]):
                c = self.compare(op, a, b)
                if c is False:
                    acc = False
                    break
                if c is True:
                    continue
                acc = c if acc is True else z3.And(acc, c)
            out.append((p, fr, acc))
        return out

    def obj_compare(self, path, frame, op, a, b):
        names = {ast.Eq: "__eq__", ast.NotEq: "__ne__", ast.Lt: "__lt__", ast.LtE: "__le__", ast.Gt: "__gt__", ast.GtE: "__ge__"}
        swapped = {ast.Eq: "__eq__", ast.NotEq: "__ne__", ast.Lt: "__gt__", ast.LtE: "__ge__", ast.Gt: "__lt__", ast.GtE: "__le__"}
        if isinstance(a, SObj):
            res = self.call_method(path, a, names[type(op)], [b], {})
        else:
            res = self.call_method(path, b, swapped[type(op)], [a], {})
        return [(p, self._fork_frame(p, path, frame), o[1] if o[0] == "return" else ("__raise__", o[1])) for p, o in res]

    def compare(self, op, a, b):
        if isinstance(op, (ast.Is, ast.IsNot)):
            if is_sym(a) or is_sym(b):
                r = False if (a is None or b is None) else None
                if r is None:
                    raise Unsupported("'is' on symbolic values")
            else:
                r = a is b
            return r if isinstance(op, ast.Is) else (not r)
        if isinstance(op, (ast.In, ast.NotIn)):
            if is_sym(a) or is_sym(b):
                raise Unsupported("'in' on symbolic values")
            r = a in b
            return r if isinstance(op, ast.In) else (not r)
        if not is_sym(a) and not is_sym(b):
            return {ast.Lt: lambda: a < b, ast.LtE: lambda: a <= b, ast.Gt: lambda: a > b, ast.GtE: lambda: a >= b,
                    ast.Eq: lambda: a == b, ast.NotEq: lambda: a != b}[type(op)]()
        # one side symbolic: nan/inf concrete values compare concretely
        for x, y in ((a, b), (b, a)):
            if not is_sym(x):
                if x is None or isinstance(x, str):
                    return isinstance(op, ast.NotEq)
                if isinstance(x, float) and x != x:
                    return isinstance(op, ast.NotEq)
                if isinstance(x, float) and x in (math.inf, -math.inf):
                    big = x > 0
                    left_is_inf = x is a
                    if isinstance(op, ast.Eq):
                        return False
                    if isinstance(op, ast.NotEq):
                        return True
                    if isinstance(op, (ast.Lt, ast.LtE)):
                        return (not big) if left_is_inf else big
                    return big if left_is_inf else (not big)
        if is_bool_term(a) or is_bool_term(b) or isinstance(a, bool) or isinstance(b, bool):
            za, zb = to_z3(a), to_z3(b)
            if isinstance(op, ast.Eq):
                return za == zb
            if isinstance(op, ast.NotEq):
                return za != zb
            raise Unsupported("ordering of booleans")
        za, zb = to_z3(a), to_z3(b)
        if z3.is_int(za) != z3.is_int(zb):
            za, zb = to_real(za), to_real(zb)
        return {ast.Lt: lambda: za < zb, ast.LtE: lambda: za <= zb, ast.Gt: lambda: za > zb, ast.GtE: lambda: za >= zb,
                ast.Eq: lambda: za == zb, ast.NotEq: lambda: za != zb}[type(op)]()

    def e_BinOp(self, path, node, frame):
        out = []
        for p, fr, vals in self.seq_eval(path, [node.left, node.right], frame):
            r = self.raised(vals)
            if r:
                out.append((p, fr, r))
                continue
            for p2, v in self.binop(p, node.op, vals[0], vals[1]):
                out.append((p2, self._fork_frame(p2, p, fr), v))
        return out

    def binop(self, path, op, a, b):
        """returns [(path, value)]"""
        if not is_sym(a) and not is_sym(b):
            if isinstance(a, SObj) or isinstance(b, SObj):
                return self.obj_binop(path, op, a, b)
            try:
                f = {ast.Add: lambda: a + b, ast.Sub: lambda: a - b, ast.Mult: lambda: a * b, ast.Div: lambda: a / b,
                     ast.FloorDiv: lambda: a // b, ast.Mod: lambda: a % b, ast.Pow: lambda: a ** b}[type(op)]
                return [(path, f())]
            except ZeroDivisionError:
                return [(path, ("__raise__", "ZeroDivisionError"))]
            except TypeError as e:
                if DEBUG:
                    print("astsym: concrete binop", type(op).__name__, repr(a), repr(b), "raised", repr(e))
                return [(path, ("__raise__", "TypeError"))]
            except OverflowError:
                return [(path, ("__raise__", "OverflowError"))]
            except KeyError:
                raise Unsupported("binop " + type(op).__name__)
        if isinstance(a, SObj) or isinstance(b, SObj):
            return self.obj_binop(path, op, a, b)
        import decimal
        if isinstance(op, ast.Div) and isinstance(b, float) and b in (math.inf, -math.inf) and is_sym(a):
            return [(path, 0.0)]          # finite / +-inf = +-0.0
        for x in (a, b):
            if isinstance(x, str) or x is None or isinstance(x, (list, tuple, dict, decimal.Decimal)):
                return [(path, ("__raise__", "TypeError"))]      # Decimal (+-*/) float is a TypeError in Python
            if isinstance(x, float) and x in (math.inf, -math.inf):
                raise Unsupported("inf arithmetic with a symbolic operand")
        # a concrete NaN operand propagates (the symbolic operand is a finite number); Python still
        # raises ZeroDivisionError for nan / 0
        if (isinstance(a, float) and a != a) or (isinstance(b, float) and b != b):
            if isinstance(op, (ast.Add, ast.Sub, ast.Mult)):
                return [(path, math.nan)]
            if isinstance(op, ast.Div):
                if isinstance(b, float) and b != b:
                    return [(path, math.nan)]
                out = []
                for p2, iszero in self.fork_bool(path, to_z3(b) == 0):
                    out.append((p2, ("__raise__", "ZeroDivisionError") if iszero else math.nan))
                return out
            raise Unsupported("nan with operator " + type(op).__name__)
        if isinstance(op, ast.Pow):
            return self.power(path, a, b)
        za, zb = to_z3(a), to_z3(b)
        if z3.is_bool(za):
            za = z3.If(za, 1, 0)
        if z3.is_bool(zb):
            zb = z3.If(zb, 1, 0)
        both_int = z3.is_int(za) and z3.is_int(zb)
        if not both_int:
            za, zb = to_real(za), to_real(zb)
        if isinstance(op, ast.Add):
            return [(path, za + zb)]
        if isinstance(op, ast.Sub):
            return [(path, za - zb)]
        if isinstance(op, ast.Mult):
            return [(path, za * zb)]
        if isinstance(op, (ast.Div, ast.FloorDiv, ast.Mod)):
            out = []
            for p2, iszero in self.fork_bool(path, zb == 0):
                if iszero:
                    out.append((p2, ("__raise__", "ZeroDivisionError")))
                elif isinstance(op, ast.Div):
                    out.append((p2, to_real(za) / to_real(zb)))
                elif isinstance(op, ast.FloorDiv):
                    if both_int:
                        # python floor division: floor(a/b)
                        out.append((p2, z3.ToInt(z3.ToReal(za) / z3.ToReal(zb))))
                    else:
                        out.append((p2, z3.ToReal(z3.ToInt(to_real(za) / to_real(zb)))))
                else:
                    q = z3.ToInt(to_real(za) / to_real(zb))
                    out.append((p2, za - zb * q if both_int else to_real(za) - to_real(zb) * z3.ToReal(q)))
            return out
        raise Unsupported("binop " + type(op).__name__)

    def obj_binop(self, path, op, a, b):
        names = {ast.Add: "add", ast.Sub: "sub", ast.Mult: "mul", ast.Div: "truediv", ast.FloorDiv: "floordiv",
                 ast.Mod: "mod", ast.Pow: "pow"}
        n = names[type(op)]
        out = []
        if isinstance(a, SObj):
            try:
                self.find_method(a.cls, f"__{n}__")
                res = self.call_method(path, a, f"__{n}__", [b], {})
                for p, o in res:
                    out.append((p, o[1] if o[0] == "return" else ("__raise__", o[1])))
                return out
            except Unsupported:
                pass
        if isinstance(b, SObj):
            res = self.call_method(path, b, f"__r{n}__", [a], {})
            for p, o in res:
                out.append((p, o[1] if o[0] == "return" else ("__raise__", o[1])))
            return out
        raise Unsupported("object binop")

    def power(self, path, a, b):
        if not is_sym(b):
            if isinstance(b, float) and b.is_integer() and abs(b) <= 8 and not isinstance(a, (int, float)):
                b = int(b)          # x ** 2.0 == x ** 2 over the reals (the result is used as a real anyway)
                a = to_real(a)
            if isinstance(b, int) and 0 <= b <= 8:
                r = 1
                for _ in range(b):
                    r = r * to_real(a) if not (is_int_term(a)) else r * a
                return [(path, r)]
            if isinstance(b, int) and -8 <= b < 0:
                out = []
                for p2, iszero in self.fork_bool(path, to_z3(a) == 0):
                    if iszero:
                        out.append((p2, ("__raise__", "ZeroDivisionError")))
                    else:
                        r = z3.RealVal(1)
                        for _ in range(-b):
                            r = r * to_real(a)
                        out.append((p2, 1 / r))
                return out
            if b in (0.5, 1.5, 2.5, -0.5, -1.5):
                out = []
                za = to_real(a)
                for p2, neg in self.fork_bool(path, za < 0):
                    if neg:
                        out.append((p2, ("__raise__", "ComplexResult")))
                        continue
                    s = self.uf(p2, "sqrt", za)
                    val = {0.5: s, 1.5: za * s, 2.5: za * za * s}.get(abs(b))
                    if b > 0:
                        out.append((p2, val))
                    else:
                        for p3, z in self.fork_bool(p2, za == 0):
                            out.append((p3, ("__raise__", "ZeroDivisionError") if z else 1 / val))
                return out
        za, zb = to_real(a), to_real(b)
        out = []
        # python: negative base with non-integer exponent -> complex; 0 ** negative -> ZeroDivisionError
        for p2, pos in self.fork_bool(path, za > 0):
            if pos:
                out.append((p2, self.uf(p2, "pow", za, zb)))
            else:
                for p3, z in self.fork_bool(p2, za == 0):
                    if z:
                        for p4, negexp in self.fork_bool(p3, zb < 0):
                            if negexp:
                                out.append((p4, ("__raise__", "ZeroDivisionError")))
                            else:
                                out.append((p4, z3.If(zb == 0, z3.RealVal(1), z3.RealVal(0))))
                    else:
                        t = self.uf(p3, "pow", za, zb)     # unconstrained (may be complex in Python)
                        out.append((p3, ("__negpow__", t)))
        return out

    def e_Subscript(self, path, node, frame):
        out = []
        for p, fr, vals in self.seq_eval(path, [node.value, node.slice], frame):
            r = self.raised(vals)
            if r:
                out.append((p, fr, r))
                continue
            c, k = vals
            if is_sym(c):
                raise Unsupported("subscript of a symbolic value")
            if is_sym(k):
                # symbolic index into a concrete sequence: fork over the positions
                if not isinstance(c, (list, tuple)):
                    raise Unsupported("symbolic key")
                any_ok = False
                for i in range(len(c)):
                    for p2, b in self.fork_bool(p, k == i):
                        if b:
                            out.append((p2, self._fork_frame(p2, p, fr), c[i]))
                            any_ok = True
                continue
            try:
                out.append((p, fr, c[k]))
            except KeyError:
                out.append((p, fr, ("__raise__", "KeyError")))
            except IndexError:
                out.append((p, fr, ("__raise__", "IndexError")))
        return out

    def e_Slice(self, path, node, frame):
        parts = []
        for n in (node.lower, node.upper, node.step):
            if n is None:
                parts.append(None)
            else:
                r = self.eval(path, n, frame)
                if len(r) != 1 or is_sym(r[0][2]):
                    raise Unsupported("symbolic slice bound")
                parts.append(r[0][2])
        return [(path, frame, slice(*parts))]

    def e_Dict(self, path, node, frame):
        out = []
        for p, fr, vals in self.seq_eval(path, list(node.keys) + list(node.values), frame):
            n = len(node.keys)
            out.append((p, fr, dict(zip(vals[:n], vals[n:]))))
        return out

    # ----------------------------------------------------------------- calls
    def e_Call(self, path, node, frame):
        if any(isinstance(a, ast.Starred) for a in node.args):
            raise Unsupported("star args")
        if any(k.arg is None for k in node.keywords):
            # f(**kw) is accepted when kw is a concrete EMPTY dict (float-subclass constructors pass **kwargs on)
            for k in node.keywords:
                if k.arg is None:
                    kv = self.eval(path, k.value, frame)
                    if len(kv) != 1 or not isinstance(kv[0][2], dict) or kv[0][2]:
                        raise Unsupported("non-empty ** arguments")
            node = copy.copy(node)
            node.keywords = [k for k in node.keywords if k.arg is not None]
        # super().__new__(cls, value): the instance of a float subclass; its float value is field __si__
        if (isinstance(node.func, ast.Attribute) and node.func.attr == "__new__" and isinstance(node.func.value, ast.Call)
                and isinstance(node.func.value.func, ast.Name) and node.func.value.func.id == "super"):
            out = []
            for p, fr, vals in self.seq_eval(path, list(node.args), frame):
                r = self.raised(vals)
                if r:
                    out.append((p, fr, r))
                    continue
                cls = vals[0]
                val = vals[1] if len(vals) > 1 else 0.0
                if isinstance(val, (str, type(None), list, dict, tuple)):
                    out.append((p, fr, ("__raise__", "TypeError" if not isinstance(val, str) else "ValueError")))
                    continue
                out.append((p, fr, new_obj(p, cls, {"__si__": to_real(val) if is_sym(val) else float(val)})))
            return out
        # super()
        if isinstance(node.func, ast.Name) and node.func.id == "super" and not node.args:
            return [(path, frame, ("__super__", frame.self_obj, frame.cls))]
        out = []
        for p, fr, fv in self.eval(path, node.func, frame):
            if _is_raise(fv):
                out.append((p, fr, fv))
                continue
            argnodes = list(node.args) + [k.value for k in node.keywords]
            for p2, fr2, vals in self.seq_eval(p, argnodes, fr):
                r = self.raised(vals)
                if r:
                    out.append((p2, fr2, r))
                    continue
                for v in vals:
                    if (_is_mark(v, "__complex__") or _is_mark(v, "__negpow__")):
                        raise Unsupported("complex intermediate value")
                args = vals[:len(node.args)]
                kwargs = {k.arg: v for k, v in zip(node.keywords, vals[len(node.args):])}
                for p3, v in self.apply(p2, fv, args, kwargs, fr2):
                    out.append((p3, self._fork_frame(p3, p2, fr2), v))
        return out

    def apply(self, path, fv, args, kwargs, frame):
        """returns [(path, value)]"""
        if _is_mark(fv, "__bound__"):
            _, obj, name, after = fv
            res = self.call_method(path, obj, name, args, kwargs, after=after)
            return [(p, o[1] if o[0] == "return" else (("__raise__", o[1]) if o[0] == "raise" else ("__raise__", "UNWIND")))
                    for p, o in res]
        key = None
        if fv is isinstance:
            return [(path, self.isinstance_(args[0], args[1]))]
        if fv is type and len(args) == 1:
            return [(path, self.pytype(args[0]))]
        if fv is float:
            v = args[0]
            if isinstance(v, SObj):
                if "__si__" in path.heap[v.oid]:
                    return [(path, path.heap[v.oid]["__si__"])]     # instance of a float subclass
                raise Unsupported("float() of an object " + repr(v) + " " + repr(path.heap[v.oid]))
            if is_sym(v):
                return [(path, to_real(v))]
            try:
                return [(path, float(v))]
            except (TypeError, ValueError) as e:
                return [(path, ("__raise__", type(e).__name__))]
        if fv is int:
            v = args[0]
            if is_sym(v):
                if z3.is_int(v):
                    return [(path, v)]
                return [(path, z3.If(v >= 0, z3.ToInt(v), -z3.ToInt(-v)))]
            return [(path, int(v))]
        if fv is bool:
            return [(path, self.truth(args[0]))]
        if fv is abs:
            v = args[0]
            if isinstance(v, SObj):
                res = self.call_method(path, v, "__abs__", [], {})
                return [(p, o[1] if o[0] == "return" else ("__raise__", o[1])) for p, o in res]
            return [(path, z3.If(v >= 0, v, -v) if is_sym(v) else abs(v))]
        if fv is len:
            return [(path, len(args[0]))]
        if fv in (max, min) and len(args) == 2 and not kwargs:
            a, b = args
            if not is_sym(a) and not is_sym(b):
                return [(path, fv(a, b))]
            for x in (a, b):
                if not is_sym(x) and isinstance(x, float) and (x != x or x in (math.inf, -math.inf)):
                    raise Unsupported("max/min with nan/inf and a symbolic operand")
            za, zb = to_z3(a), to_z3(b)
            if z3.is_int(za) != z3.is_int(zb):
                za, zb = to_real(za), to_real(zb)
            # python: max(a,b) returns b only if b > a ; min(a,b) returns b only if b < a
            return [(path, z3.If(zb > za, zb, za) if fv is max else z3.If(zb < za, zb, za))]
        if fv is math.isnan:
            v = args[0]
            if is_sym(v):
                return [(path, False)]
            if isinstance(v, SObj):
                raise Unsupported("isnan of object")
            try:
                return [(path, math.isnan(v))]
            except TypeError:
                return [(path, ("__raise__", "TypeError"))]
        if fv is math.isclose:
            a, b = args[0], args[1]
            rel = kwargs.get("rel_tol", 1e-09)
            ab = kwargs.get("abs_tol", 0.0)
            if not any(is_sym(t) for t in (a, b, rel, ab)):
                return [(path, math.isclose(a, b, rel_tol=rel, abs_tol=ab))]
            za, zb = to_real(a), to_real(b)
            absf = lambda t: z3.If(t >= 0, t, -t)
            m = z3.If(absf(za) >= absf(zb), absf(za), absf(zb))
            tol = to_real(rel) * m
            tol = z3.If(tol >= to_real(ab), tol, to_real(ab))
            return [(path, z3.Or(za == zb, absf(za - zb) <= tol))]
        if fv is math.isinf:
            v = args[0]
            return [(path, False if is_sym(v) else math.isinf(v))]
        if fv is math.isfinite:
            v = args[0]
            return [(path, True if is_sym(v) else math.isfinite(v))]
        if fv is math.sqrt:
            v = args[0]
            if not is_sym(v):
                try:
                    return [(path, math.sqrt(v))]
                except ValueError:
                    return [(path, ("__raise__", "ValueError"))]
                except TypeError:
                    return [(path, ("__raise__", "TypeError"))]
            out = []
            for p2, neg in self.fork_bool(path, to_real(v) < 0):
                out.append((p2, ("__raise__", "ValueError") if neg else self.uf(p2, "sqrt", v)))
            return out
        if fv is math.log and len(args) == 1:
            v = args[0]
            if not is_sym(v):
                try:
                    return [(path, math.log(v))]
                except ValueError:
                    return [(path, ("__raise__", "ValueError"))]
            out = []
            for p2, bad in self.fork_bool(path, to_real(v) <= 0):
                out.append((p2, ("__raise__", "ValueError") if bad else self.uf(p2, "log", v)))
            return out
        if fv is math.exp:
            v = args[0]
            if not is_sym(v):
                return [(path, math.exp(v))]
            return [(path, self.uf(path, "exp", v))]
        if fv is math.pow:
            return self.power(path, args[0], args[1])
        if fv is math.floor:
            v = args[0]
            return [(path, z3.ToInt(to_real(v)) if is_sym(v) else math.floor(v))]
        if fv is math.ceil:
            v = args[0]
            return [(path, -z3.ToInt(-to_real(v)) if is_sym(v) else math.ceil(v))]
        if fv is math.erf:
            v = args[0]
            return [(path, self.uf(path, "erf", v) if is_sym(v) else math.erf(v))]
        if fv is math.gamma:
            v = args[0]
            if not is_sym(v):
                return [(path, math.gamma(v))]
            return [(path, self.uf(path, "gammaf", v))]
        if fv is math.lgamma:
            v = args[0]
            return [(path, UF["lgamma"](to_real(v)) if is_sym(v) else math.lgamma(v))]
        if fv is round and len(args) == 1:
            v = args[0]
            if not is_sym(v):
                return [(path, round(v))]
            if z3.is_int(v):
                return [(path, v)]
            f = z3.ToInt(v)
            frac = v - z3.ToReal(f)
            half = z3.RealVal("1/2")
            # banker's rounding, as Python's round()
            return [(path, z3.If(frac > half, f + 1, z3.If(frac < half, f, z3.If(f % 2 == 0, f, f + 1))))]
        if fv is round and len(args) == 2 and not is_sym(args[1]) and isinstance(args[1], int) and -30 <= args[1] <= 30:
            v, nd = args
            if not is_sym(v):
                return [(path, round(v, nd))]
            # round(x, n) over the reals: round-half-even of x*10^n, divided by 10^n (the result is a float for float x)
            scale = z3.RealVal(10 ** nd) if nd >= 0 else z3.RealVal(1) / z3.RealVal(10 ** (-nd))
            y = to_real(v) * scale
            f = z3.ToInt(y)
            frac = y - z3.ToReal(f)
            half = z3.RealVal("1/2")
            r = z3.If(frac > half, f + 1, z3.If(frac < half, f, z3.If(f % 2 == 0, f, f + 1)))
            return [(path, z3.ToReal(r) / scale)]
        name = getattr(fv, "__qualname__", getattr(fv, "__name__", repr(fv)))
        hook = self.hooks.get(name)
        if hook is not None:
            return hook(self, path, None, args, kwargs)
        if inspect.isclass(fv):
            hook = self.hooks.get(fv.__name__)
            if hook is not None:
                return hook(self, path, None, args, kwargs)
            if issubclass(fv, BaseException):
                return [(path, ("__exc__", fv.__name__))]
            # instantiate a real class symbolically: run its __init__
            if fv.__module__ in ("builtins", "collections", "typing") or not (
                    inspect.isfunction(getattr(fv, "__init__", None)) or inspect.isfunction(getattr(fv, "__new__", None))):
                if all(not is_sym(a) and not isinstance(a, SObj) for a in list(args) + list(kwargs.values())):
                    try:
                        return [(path, fv(*args, **kwargs))]
                    except Exception as e:      # noqa
                        return [(path, ("__raise__", type(e).__name__))]
                raise Unsupported("instantiation of builtin class " + fv.__name__ + " with symbolic arguments")
            newfn = None
            for c0 in fv.__mro__:
                cand = c0.__dict__.get("__new__")
                cand = cand.__func__ if isinstance(cand, staticmethod) else cand
                if inspect.isfunction(cand):
                    newfn = (c0, c0.__dict__["__new__"])
                    break
            if newfn is not None:
                c0, nf = newfn
                nf = nf.__func__ if isinstance(nf, staticmethod) else nf
                out = []
                fr_new = self.call_function_new(path, nf, fv, args, kwargs, c0)
                for p2, o in fr_new:
                    if o[0] != "return":
                        out.append((p2, ("__raise__", o[1])))
                        continue
                    obj = o[1]
                    c, init = self.find_method(fv, "__init__")
                    if init is object.__init__:
                        out.append((p2, obj))
                        continue
                    for p3, o3 in self.call_function(p2, init, args, kwargs, self_obj=obj, defining_cls=c):
                        out.append((p3, obj if o3[0] == "return" else ("__raise__", o3[1])))
                return out
            obj = new_obj(path, fv)
            try:
                c, init = self.find_method(fv, "__init__")
            except Unsupported:
                return [(path, obj)]
            if init is object.__init__:
                return [(path, obj)]
            out = []
            for p2, o in self.call_function(path, init, args, kwargs, self_obj=obj, defining_cls=c):
                out.append((p2, obj if o[0] == "return" else ("__raise__", o[1])))
            return out
        if inspect.isfunction(fv) and not getattr(fv, "__module__", "").startswith(("pydsol", "harness", "checks", "vf")) \
                and all(not is_sym(a) and not isinstance(a, SObj) for a in list(args) + list(kwargs.values())):
            try:                                  # library function on concrete values: just run it
                return [(path, fv(*args, **kwargs))]
            except Exception as e:      # noqa
                return [(path, ("__raise__", type(e).__name__))]
        if inspect.isfunction(fv):
            res = self.call_function(path, fv, args, kwargs)
            return [(p, o[1] if o[0] == "return" else ("__raise__", o[1])) for p, o in res]
        if all(not is_sym(a) and not isinstance(a, SObj) for a in list(args) + list(kwargs.values())):
            try:
                return [(path, fv(*args, **kwargs))]
            except Exception as e:      # noqa
                if DEBUG:
                    print("astsym: concrete call", name, args, kwargs, "raised", repr(e))
                return [(path, ("__raise__", type(e).__name__))]
        raise Unsupported("call of " + name)

    # ----------------------------------------------------------------- python types of values
    def pytype(self, v):
        if isinstance(v, SObj):
            return v.cls
        if is_sym(v):
            if z3.is_bool(v):
                return bool
            return int if z3.is_int(v) else float
        return type(v)

    def isinstance_(self, v, classes):
        t = self.pytype(v)
        if not isinstance(classes, tuple):
            classes = (classes,)
        return any(issubclass(t, c) for c in classes)


# --------------------------------------------------------------------- convenience
def summarize(engine, fn, args, kwargs=None, self_obj=None, defining_cls=None, path=None):
    """run fn symbolically; returns list of Path with .outcome set and .result_self (the self object)"""
    path = path or Path()
    if self_obj is not None:
        path.objects["self"] = self_obj
    out = []
    for p, o in engine.call_function(path, fn, args, kwargs or {}, self_obj=path.objects.get("self"),
                                     defining_cls=defining_cls):
        p.outcome = o
        out.append(p)
    return out


def prove(engine, path, claim, extra_pre=None):
    """is `claim` (z3 bool or python bool) implied by the path condition?  -> 'unsat' (holds) / 'sat' / 'unknown'"""
    import time
    if claim is True:
        return "unsat", None
    # a fresh, non-incremental solver per obligation: z3 then runs its full tactic pipeline
    # (nlsat for nonlinear reals); the incremental core used for path feasibility gives up
    # on the same queries
    s = z3.Solver()
    s.set("timeout", engine.prove_timeout_ms)
    t0 = time.time()
    seen = set()
    for c in path.pc:
        if c.get_id() not in seen:
            seen.add(c.get_id())
            s.add(c)
    if extra_pre is not None:
        s.add(extra_pre)
    s.add(z3.Not(claim) if claim is not False else z3.BoolVal(True))
    r = str(s.check())
    model = s.model() if r == "sat" else None
    engine.queries += 1
    engine.solver_s += time.time() - t0
    return r, model
