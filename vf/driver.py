"""Common driver: runs obligations, maps verdicts, replays counterexamples on the
real code, handles known findings, writes evidence, sets the exit code.

Verdict of one obligation:
  "pass"          solver verdict: holds on every path / unsat, inside the bound
  "violation"     counterexample that REPLAYED on the unmodified code
  "known"         replayed counterexample whose signature is a recorded known finding
  "inconclusive"  timeout / unknown / unexplored path / vacuous harness / non-replaying
                  counterexample / encoding error          (never reported as success)
Exit code: 1 if any violation, else 2 if any inconclusive, else 0.
"""
import ast
import concurrent.futures as cf
import dataclasses
import hashlib
import json
import os
import re
import shutil
import subprocess
import sys
import tempfile
import time

HERE = os.path.dirname(os.path.dirname(os.path.abspath(__file__)))
PY = os.path.join(HERE, ".venv", "bin", "python")
NCPU = int(os.environ.get("VF_JOBS", os.cpu_count() or 4))


@dataclasses.dataclass
class Cond:
    """One CrossHair condition = harness function + parameter environment."""
    name: str
    module: str
    fn: str
    env: dict
    timeout: float            # CrossHair per_condition_timeout (CPU seconds)
    twin: bool = True
    twin_timeout: float = 60.0


@dataclasses.dataclass
class Obligation:
    name: str
    verdict: str              # pass | violation | known | inconclusive
    engine: str               # crosshair | astsym-z3 | z3-table | cvc5-fp | ground
    detail: str = ""
    solver_s: float = 0.0
    paths: int = 0            # symbolic paths / queries behind this obligation
    sample: object = None
    nontrivial: bool = True
    signature: str = ""
    replay: str = ""


def _parse_call(message):
    """'... when calling f(1, [2], k=3) (which returns False)' -> (args, kwargs)"""
    m = re.search(r"when calling (\w+)\((.*)\)(?: \(which (?:returns|raises).*\))?\s*$", message, re.S)
    if not m:
        m = re.search(r"when calling (\w+)\((.*)\)", message, re.S)
    if not m:
        return None
    src = "f(" + m.group(2) + ")"
    # strip a trailing "(which returns ...)" that the greedy group may have eaten
    for cut in (" with crosshair.patch_to_return", " (which returns", " (which raises"):
        i = src.find(cut)
        if i >= 0:
            src = src[:i]
    try:
        call = ast.parse(src, mode="eval").body
        env = {"float": float, "nan": float("nan"), "inf": float("inf"),
               "True": True, "False": False, "None": None}

        def ev(node):
            return eval(compile(ast.Expression(node), "<cex>", "eval"), {"__builtins__": {}}, env)
        return [ev(a) for a in call.args], {k.arg: ev(k.value) for k in call.keywords}
    except Exception:
        return None


class Context:
    def __init__(self, prop, tier):
        self.prop = prop
        self.tier = tier
        self.seed = int(os.environ.get("VERIF_SEED", "0") or 0)
        self.t0 = time.time()
        self.obligations = []
        self.functions = []       # qualified names of real functions executed/encoded
        self.bounds = {}
        self.assumptions = []
        self.outside = []
        self.samples = []
        self.notes = []
        self.scratch = tempfile.mkdtemp(prefix="vf_", dir=os.environ.get("TMPDIR", "/var/tmp"))
        self.known = self._load_known()
        self.known_seen = {}
        self.violations = []

    # ------------------------------------------------------------------ known findings
    def _load_known(self):
        try:
            with open(os.path.join(HERE, "known_findings.json")) as f:
                data = json.load(f)
        except FileNotFoundError:
            return {}
        return {e["signature"]: e for e in data.get("findings", [])
                if e.get("property") == self.prop and e.get("status") == "known"}

    # ------------------------------------------------------------------ helpers
    def add(self, ob):
        self.obligations.append(ob)
        return ob

    def source_hash(self, obj):
        import inspect
        try:
            src = inspect.getsource(obj)
        except Exception:
            return None
        name = getattr(obj, "__module__", "") + "." + getattr(obj, "__qualname__", str(obj))
        h = hashlib.sha1(src.encode()).hexdigest()[:12]
        self.functions.append(f"{name}@{h}")
        return h

    # ------------------------------------------------------------------ replay
    def replay(self, module, fn, args, kwargs, env, no_suppress=False):
        """Run the harness function concretely on the real code (no stand-ins unless the
        harness keeps them in replay mode, which it documents).  Returns dict."""
        e = dict(os.environ)
        e.update({k: str(v) for k, v in env.items()})
        e["VF_MODE"] = "replay"
        if no_suppress:
            e["VF_NO_SUPPRESS"] = "1"
        spec = json.dumps({"module": module, "fn": fn, "args": args, "kwargs": kwargs}, default=_json_default)
        try:
            p = subprocess.run([PY, "-m", "vf.replay", "--spec", spec], env=e, cwd=HERE,
                               capture_output=True, text=True, timeout=300)
        except subprocess.TimeoutExpired:
            return {"reproduced": False, "error": "replay timeout"}
        last = [l for l in p.stdout.splitlines() if l.startswith("REPLAY-RESULT ")]
        if not last:
            return {"reproduced": False, "error": (p.stdout + p.stderr)[-1500:]}
        return json.loads(last[-1][len("REPLAY-RESULT "):])

    def write_replay(self, module, fn, args, kwargs, env, fails):
        spec = {"property": self.prop, "module": module, "fn": fn, "args": args,
                "kwargs": kwargs, "env": {k: str(v) for k, v in env.items()}, "fails": fails}
        blob = json.dumps(spec, sort_keys=True, default=_json_default)
        h = hashlib.sha1(blob.encode()).hexdigest()[:10]
        os.makedirs(os.path.join(HERE, "replays"), exist_ok=True)
        path = os.path.join(HERE, "replays", f"{self.prop}-{h}.json")
        with open(path, "w") as f:
            f.write(blob)
        return path

    def report_counterexample(self, name, engine, module, fn, args, kwargs, env, paths=0, solver_s=0.0):
        """Replay a counterexample; classify as violation / known / inconclusive."""
        r = self.replay(module, fn, args, kwargs, env)
        sample = {"fn": fn, "args": args, "kwargs": kwargs, "env": env}
        if not r.get("reproduced"):
            # maybe it only consists of known findings (suppressed in replay as well)
            if r.get("suppressed"):
                for sig in r["suppressed"]:
                    self.known_seen.setdefault(sig, r.get("detail", ""))
                return self.add(Obligation(name, "known", engine,
                                           "counterexample reduces to recorded known findings only: " + ",".join(r["suppressed"]),
                                           solver_s, paths, sample))
            return self.add(Obligation(name, "inconclusive", engine,
                                       "counterexample did NOT replay on the real code (encoding/stub problem): "
                                       + json.dumps(r)[:600], solver_s, paths, sample))
        fails = r["fails"]
        sig = fails[0][0]
        path = self.write_replay(module, fn, args, kwargs, env, fails)
        self.violations.append((sig, path, fails[0][1]))
        return self.add(Obligation(name, "violation", engine, f"{sig}: {fails[0][1]}", solver_s, paths,
                                   sample, signature=sig, replay=path))

    # ------------------------------------------------------------------ CrossHair
    def _run_worker(self, cond, twin):
        out = os.path.join(self.scratch, f"{cond.name}{'.twin' if twin else ''}.json".replace("/", "_"))
        e = dict(os.environ)
        e.update({k: str(v) for k, v in cond.env.items()})
        e["VF_MODE"] = "symbolic"
        e["VF_SCRATCH"] = tempfile.mkdtemp(prefix="tw_", dir=self.scratch)
        t = cond.twin_timeout if twin else cond.timeout
        cmd = [PY, "-m", "vf.chworker", cond.module, cond.fn, str(t), out] + (["twin"] if twin else [])
        t0 = time.time()
        try:
            p = subprocess.run(cmd, env=e, cwd=HERE, capture_output=True, text=True,
                               timeout=t * 2.5 + 120)
            err = p.stderr[-2000:]
        except subprocess.TimeoutExpired:
            return {"error": "worker wall-clock timeout", "wall_s": time.time() - t0}
        try:
            with open(out) as f:
                r = json.load(f)
        except Exception:
            r = {"error": "no result file; stderr: " + err}
        return r

    def crosshair(self, conds):
        """Run all conditions (and their reachability twins) on the available cores."""
        only = os.environ.get("VF_ONLY")       # development aid: run a subset; recorded in the evidence notes
        if only:
            conds = [c for c in conds if only in c.name]
            self.notes.append(f"VF_ONLY={only!r}: only a subset of the conditions was run (development run)")
        jobs = []
        with cf.ThreadPoolExecutor(max_workers=NCPU) as ex:
            for c in conds:
                jobs.append((c, False, ex.submit(self._run_worker, c, False)))
            for c in conds:
                if c.twin:
                    jobs.append((c, True, ex.submit(self._run_worker, c, True)))
            results = {}
            for c, twin, fut in jobs:
                results[(c.name, twin)] = fut.result()
        for c in conds:
            r = results[(c.name, False)]
            tw = results.get((c.name, True))
            self._classify(c, r, tw)

    def _classify(self, c, r, tw):
        name = c.name
        paths = r.get("num_paths", 0)
        cpu = r.get("cpu_s", 0.0)
        sample = {"condition": name, "harness": f"harness/{c.module}.py:{c.fn}", "env": c.env}
        if "error" in r:
            return self.add(Obligation(name, "inconclusive", "crosshair", "harness error: " + r["error"][-800:], cpu, paths, sample))
        msgs = r.get("messages", [])
        states = [m["state"] for m in msgs]
        if r.get("suppressed"):
            for s in r["suppressed"]:
                self.known_seen.setdefault(s, "met on a symbolic path of " + name)
        cex = [m for m in msgs if m["state"] in ("post_fail", "exec_err", "post_err")]
        if cex:
            m = cex[0]
            parsed = _parse_call(m["message"])
            if parsed is None:
                return self.add(Obligation(name, "inconclusive", "crosshair",
                                           "counterexample could not be parsed: " + m["message"][:500], cpu, paths, sample))
            args, kwargs = parsed
            ob = self.report_counterexample(name, "crosshair", c.module, c.fn, args, kwargs, c.env, paths, cpu)
            ob.detail += " | crosshair: " + m["message"][:300]
            return ob
        if states == ["confirmed"]:
            # vacuity guard
            if c.twin:
                tst = [m["state"] for m in (tw or {}).get("messages", [])]
                if "error" in (tw or {"error": 1}) or not any(s in ("post_fail",) for s in tst):
                    return self.add(Obligation(name, "inconclusive", "crosshair",
                                               "confirmed, but the reachability twin was not refuted (vacuous harness?): "
                                               + json.dumps(tw)[:500], cpu, paths, sample))
                twm = [m for m in tw["messages"] if m["state"] == "post_fail"][0]["message"]
                sample["twin_witness"] = twm[:300]
            sample["paths"] = paths
            return self.add(Obligation(name, "pass", "crosshair", f"confirmed over all paths ({paths} paths)", cpu, paths, sample))
        return self.add(Obligation(name, "inconclusive", "crosshair",
                                   "not confirmed inside the budget: " + "; ".join(f"{m['state']}: {m['message']}" for m in msgs)[:600],
                                   cpu, paths, sample))

    # ------------------------------------------------------------------ finish
    def finish(self):
        # known findings: replay each recorded witness on the real code
        for sig, e in self.known.items():
            w = e.get("witness")
            still = None
            if w:
                r = self.replay(w["module"], w["fn"], w.get("args", []), w.get("kwargs", {}), w.get("env", {}), no_suppress=True)
                still = bool(r.get("reproduced")) and any(f[0] == sig for f in r.get("fails", []))
            if still or (still is None and sig in self.known_seen):
                print(f"KNOWN-FINDING: property={self.prop} {sig}: {e.get('what', '')}")
            elif still is False:
                self.notes.append(f"known finding {sig} no longer reproduces (repaired?)")
        viol = [o for o in self.obligations if o.verdict == "violation"]
        inconc = [o for o in self.obligations if o.verdict == "inconclusive"]
        passed = [o for o in self.obligations if o.verdict == "pass"]
        seen = set()
        for o in viol:
            if o.replay not in seen:
                seen.add(o.replay)
                print(f"VIOLATION property={self.prop} replay={o.replay}")
                print(f"  {o.name}: {o.detail[:400]}")
        for o in inconc:
            print(f"INCONCLUSIVE {self.prop} {o.name}: {o.detail[:400]}", file=sys.stderr)
        wall = time.time() - self.t0
        nontriv = len({o.name for o in passed if o.nontrivial})
        samples = [o.sample for o in self.obligations if o.sample is not None][:6] + self.samples[:4]
        ev = {
            "property_id": self.prop,
            "tier": self.tier,
            "seed": self.seed,
            "level": "model_checking",
            "coverage": {
                "evaluations": int(sum(o.paths for o in self.obligations)),
                "distinct_nontrivial": nontriv,
                "rule": "evaluations = symbolic paths explored by CrossHair plus SMT queries discharged; "
                        "distinct_nontrivial = distinct obligations decided 'holds within the bound' by the solver "
                        "whose non-vacuity witness (reachability twin / satisfiable premises) succeeded",
                "samples": samples or ["none"],
                "obligations": len(self.obligations),
                "discharged": len(passed),
                "violations_replayed": len(viol),
                "inconclusive": len(inconc),
                "checker_cmd": f"./run.sh {self.prop} {self.tier}",
                "trusted_base": ["CPython 3.12 of /venv", "crosshair-tool 0.0.110", "z3 5.1.0",
                                 "the harness oracles under /verif/harness", "stubs listed under assumptions"],
                "functions_encoded": sorted(set(self.functions)),
                "bounds": self.bounds,
                "outside_the_claim": self.outside,
                "solver_cpu_s": round(sum(o.solver_s for o in self.obligations), 2),
                "obligation_results": [
                    {"name": o.name, "verdict": o.verdict, "engine": o.engine, "paths_or_queries": o.paths,
                     "solver_s": round(o.solver_s, 2), "detail": o.detail[:300]} for o in self.obligations],
                "known_findings_met": sorted(self.known_seen),
                "notes": self.notes,
                "exhaustive": False,
            },
            "assumptions": self.assumptions,
            "wall_s": round(wall, 2),
            "violations": len(viol),
        }
        evdir = os.environ.get("VF_EVIDENCE_DIR") or os.path.join(HERE, "evidence")
        os.makedirs(evdir, exist_ok=True)
        with open(os.path.join(evdir, self.prop + ".json"), "w") as f:
            json.dump(ev, f, indent=1, default=_json_default)
        shutil.rmtree(self.scratch, ignore_errors=True)
        print(f"{self.prop} {self.tier}: {len(passed)} pass, {len(viol)} violation, {len(inconc)} inconclusive "
              f"of {len(self.obligations)} obligations in {wall:.0f}s")
        if viol:
            return 1
        if inconc or not self.obligations:
            return 2
        return 0


def _json_default(o):
    if isinstance(o, float):
        return repr(o)
    if isinstance(o, (set, frozenset)):
        return sorted(o)
    return repr(o)
