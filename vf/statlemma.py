"""Shared machinery of the Engine-B statistics checks (C09, C10).

Ghost state of an arbitrary data set: count n >= 1 and raw power sums (symbolic reals).
`invariant_fields` expresses every accumulator field of the live class as a function of the
ghost state; the step lemma (register one more observation) and the getter lemmas are
discharged on the path summaries astsym extracts from the live source.
"""
import z3

from vf import astsym as A
from vf.driver import Obligation


def rv(x):
    return z3.RealVal(x)


def model_num(m, t):
    """python float of a z3 term under model m (algebraic numbers approximated)"""
    v = m.eval(t, model_completion=True)
    if z3.is_int_value(v):
        return float(v.as_long())
    if z3.is_rational_value(v):
        return float(v.numerator_as_long()) / float(v.denominator_as_long())
    if z3.is_algebraic_value(v):
        a = v.approx(20)
        return float(a.numerator_as_long()) / float(a.denominator_as_long())
    raise ValueError("cannot evaluate " + str(t))


def model_int(m, t):
    return m.eval(t, model_completion=True).as_long()


class Lemmas:
    """collects obligations on a driver Context"""

    def __init__(self, ctx, engine):
        self.ctx = ctx
        self.eng = engine

    def check_equal(self, name, path, got, want, extra_pre=None, sample=None):
        """obligation: under path.pc (and extra_pre) got == want.  Returns model or None."""
        if not A.is_sym(got) and not A.is_sym(want):
            ok = (got == want) or (got != got and want != want)
            claim = bool(ok)
            r, m = ("unsat", None) if claim else A.prove(self.eng, path, False, extra_pre)
        else:
            if (not A.is_sym(got) and got != got) or (not A.is_sym(want) and want != want):
                # one side NaN, the other symbolic: equal only if the path is infeasible
                r, m = A.prove(self.eng, path, False, extra_pre)
            else:
                g, w = A.to_z3(got), A.to_z3(want)
                if z3.is_int(g) != z3.is_int(w):
                    g, w = A.to_real(g), A.to_real(w)
                r, m = A.prove(self.eng, path, g == w, extra_pre)
        return r, m

    def record(self, name, verdict, detail="", sample=None, solver_s=0.0, queries=1):
        return self.ctx.add(Obligation(name, verdict, "astsym-z3", detail, solver_s, queries, sample))
