"""One CrossHair condition in one process.

usage: python -m vf.chworker <harness-module> <function> <timeout-s> <out.json> [twin]

Loads /verif/harness/<module>.py (which imports the real pydsol modules from
/repo/src and installs its stand-ins), then runs CrossHair's contract analysis
(the same code path as `crosshair check --report_all --per_condition_timeout T`)
on the PEP-316 contract of <function>.  With `twin`, a copy of the function whose
postcondition is negated is generated from the harness source and analysed
instead: it must be REFUTED (a path that satisfies the preconditions, runs to the
end and evaluates the property to True exists), otherwise the harness is vacuous.
"""
import ast
import collections
import importlib.util
import json
import os
import re
import sys
import time
import traceback


def _gen_twin(src_path, fn_name, scratch):
    src = open(src_path).read()
    tree = ast.parse(src)
    seg = None
    for node in tree.body:
        if isinstance(node, ast.FunctionDef) and node.name == fn_name:
            seg = ast.get_source_segment(src, node)
    if seg is None:
        raise SystemExit(f"no function {fn_name} in {src_path}")
    twin = seg.replace(f"def {fn_name}(", f"def {fn_name}__twin(", 1)
    twin, n = re.subn(r"(?m)^(\s*)post:\s*_\s*$", r"\1post: not _", twin)
    if n != 1:
        raise SystemExit(f"{fn_name}: expected exactly one 'post: _' line")
    out = os.path.join(scratch, os.path.basename(src_path))
    with open(out, "w") as f:
        f.write(src + "\n\n" + twin + "\n")
    return out, fn_name + "__twin"


def main():
    modname, fn_name, timeout, out_path = sys.argv[1:5]
    twin = len(sys.argv) > 5 and sys.argv[5] == "twin"
    timeout = float(timeout)
    here = os.path.dirname(os.path.dirname(os.path.abspath(__file__)))
    src_path = os.path.join(here, "harness", modname + ".py")
    result = {"module": modname, "fn": fn_name, "twin": twin, "timeout": timeout}
    t0 = time.time()
    try:
        if twin:
            scratch = os.environ["VF_SCRATCH"]
            src_path, fn_name = _gen_twin(src_path, fn_name, scratch)
        # prints of the code under test (warnings, tracebacks of handler faults) are discarded
        if os.environ.get("VF_WORKER_VERBOSE") != "1":
            sys.stdout = open(os.devnull, "w")
            sys.stderr = sys.stdout
        spec = importlib.util.spec_from_file_location("harness_" + modname, src_path)
        mod = importlib.util.module_from_spec(spec)
        sys.modules[spec.name] = mod
        spec.loader.exec_module(mod)
        fn = getattr(mod, fn_name)

        from crosshair.core_and_libs import analyze_function, run_checkables
        from crosshair.options import AnalysisOptionSet, AnalysisKind
        # floats are modelled as exact reals: CrossHair otherwise forks a 2 % IEEE bit-precise
        # representation whose queries time out, so nothing with a float is ever confirmed.
        # (IEEE rounding is outside every claim made by Engine A; stated in the evidence.)
        if os.environ.get("VF_FLOAT_MODEL", "real") == "real":
            from crosshair.libimpl import builtinslib as _bl
            _bl._PYTYPE_TO_WRAPPER_TYPE[float] = ((_bl.RealBasedSymbolicFloat, 1.0),)
            # CrossHair caps every analysis that created a real-based float at UNKNOWN ("reals are not
            # floats").  Exact-real arithmetic is this framework's stated float model, so the cap is lifted;
            # a path that concretises a value (realisation) is still reported as not exhaustive.
            from crosshair.statespace import StateSpace as _SS
            _SS.cap_result_at_unknown = lambda self: None
        # formatting stub: f-strings of the code under test (error messages, log lines) concretise every
        # symbolic value they print, which turns one path into one path per value.  Messages are never the
        # subject of a property here, so format() of anything but a concrete primitive yields a placeholder.
        if os.environ.get("VF_FORMAT_STUB", "1") == "1":
            import crosshair.core as _core
            from crosshair.tracers import NoTracing as _NoTracing
            _orig_format = _core._PATCH_REGISTRATIONS.get(format)

            def _vf_format(obj, format_spec=""):
                with _NoTracing():
                    prim = type(obj) in (int, float, str, bool, type(None)) and type(format_spec) is str
                if prim:
                    return _orig_format(obj, format_spec) if _orig_format else format(obj, format_spec)
                return "<?>"
            _core._PATCH_REGISTRATIONS[format] = _vf_format
        stats = collections.Counter()
        opts = AnalysisOptionSet(
            analysis_kind=(AnalysisKind.PEP316,),
            per_condition_timeout=timeout,
            report_all=True,
            stats=stats,
        )
        ppt = os.environ.get("VF_PER_PATH_TIMEOUT")
        if ppt:
            opts.per_path_timeout = float(ppt)
        checkables = analyze_function(fn, opts)
        if not checkables:
            raise RuntimeError("no contract found on " + fn_name)
        msgs = run_checkables(checkables)
        result["messages"] = [
            {"state": m.state.value, "message": m.message, "line": m.line,
             "traceback": (m.traceback or "")[-1500:]}
            for m in msgs
        ]
        result["num_paths"] = stats.get("num_paths", 0)
        import vf.rt as rt
        result["suppressed"] = sorted(set(rt.SUPPRESSED))
    except BaseException as e:  # noqa: report everything to the driver
        result["error"] = "".join(traceback.format_exception(type(e), e, e.__traceback__))[-3000:]
    result["wall_s"] = round(time.time() - t0, 2)
    result["cpu_s"] = round(time.process_time(), 2)
    with open(out_path, "w") as f:
        json.dump(result, f)


if __name__ == "__main__":
    main()
