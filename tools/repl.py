#!/usr/bin/env python3
"""CRLF-preserving exact replacement: repl.py <file> <old-file> <new-file> (old/new in LF)."""
import sys
p, oldf, newf = sys.argv[1:4]
s = open(p, newline='').read()
crlf = '\r\n' in s
old = open(oldf).read().rstrip('\n')
new = open(newf).read().rstrip('\n')
if crlf:
    old = old.replace('\n', '\r\n'); new = new.replace('\n', '\r\n')
n = s.count(old)
if n != 1:
    sys.exit(f"expected exactly one occurrence, found {n}")
open(p, 'w', newline='').write(s.replace(old, new))
print("patched", p)
