#!/usr/bin/env python3
"""addcheck.py <ID> <engine> <technique> <level text> <level note> [design_ref]"""
import json, sys
pid, engine, technique, text, note = sys.argv[1:6]
ref = sys.argv[6] if len(sys.argv) > 6 else f"DESIGN.md section 5 {pid}"
m = json.load(open('/verif/MANIFEST.json'))
m['checks'] = [c for c in m['checks'] if c['property_id'] != pid]
m['checks'].append({
    "property_id": pid, "quick_cmd": f"./run.sh {pid} quick", "thorough_cmd": f"./run.sh {pid} thorough",
    "evidence_file": f"/verif/evidence/{pid}.json", "replay_cmd_template": "./run.sh replay {path}",
    "engine": engine,
    "level_claimed": {"category": "model_checking", "text": text, "design_ref": ref},
    "level_note": note, "technique": technique})
m['checks'].sort(key=lambda c: c['property_id'])
m['not_applicable'] = [n for n in m.get('not_applicable', []) if n['property_id'] != pid]
for e in m['engines']:
    if e['name'] == engine and pid not in e['serves_properties']:
        e['serves_properties'].append(pid)
json.dump(m, open('/verif/MANIFEST.json', 'w'), indent=1)
