#!/bin/bash
# mutest.sh <PROP> <worktree> <mdir> <seed-id> [tier]   - confirm a seeded change and run the check against it
P=$1; WT=$2; M=$3; ID=$4; TIER=${5:-quick}
set -u
cd $WT && git checkout -q -- . && git apply $M/patch.diff || { echo "patch does not apply"; exit 9; }
T=$(PYTHONPATH=$WT/src /venv/bin/python -m pytest -q -p no:cacheprovider --timeout=900 2>&1 | tail -1)
PYTHONPATH=$WT/src timeout 120 /venv/bin/python $M/demo.py >/dev/null 2>&1; D1=$?
git checkout -q -- .
PYTHONPATH=$WT/src timeout 120 /venv/bin/python $M/demo.py >/dev/null 2>&1; D0=$?
echo "tests: $T | demo with change: exit $D1 | demo without: exit $D0"
cd $WT && git apply $M/patch.diff
cd /verif
START=$(date +%s)
VF_REPO=$WT VF_EVIDENCE_DIR=/var/tmp/mutest_ev_$ID ./run.sh $P $TIER > /var/tmp/mutest_$ID.log 2>&1; RC=$?
END=$(date +%s)
git -C $WT checkout -q -- .
V=$(grep -c "^VIOLATION" /var/tmp/mutest_$ID.log)
echo "check $P $TIER on $ID: exit $RC, $V VIOLATION lines, $((END-START))s"
grep -A1 "^VIOLATION" /var/tmp/mutest_$ID.log | head -4 | cut -c1-300
mkdir -p seeded/$ID
cp $M/patch.diff $M/demo.py seeded/$ID/
cp $M/notes.md seeded/$ID/notes.md 2>/dev/null
python3 - "$P" "$ID" "$T" "$D1" "$D0" "$RC" "$V" "$TIER" <<'PY'
import json,sys,re
P,ID,T,D1,D0,RC,V,TIER=sys.argv[1:9]
notes=open(f'/verif/seeded/{ID}/notes.md').read() if __import__('os').path.exists(f'/verif/seeded/{ID}/notes.md') else ''
first=[l for l in open(f'/var/tmp/mutest_{ID}.log') if l.startswith('  ')][:1]
meta={"id":ID,"breaks_property":P,"needs_to_manifest":notes[:1200],
 "confirmed":{"existing_test_suite_with_change":T,"demo_exit_with_change":int(D1),"demo_exit_without_change":int(D0)},
 "check_result":{"command":f"./run.sh {P} {TIER}","exit":int(RC),"violation_lines":int(V),"first":first[0].strip()[:400] if first else ""},
 "detected":int(RC)==1 and int(V)>0}
json.dump(meta,open(f'/verif/seeded/{ID}/meta.json','w'),indent=1)
PY
