#!/usr/bin/env python3-vt
import json, sys, glob, jsonschema
m = json.load(open('/verif/MANIFEST.json'))
jsonschema.validate(m, json.load(open('/root/.vp/MANIFEST.schema.json')))
es = json.load(open('/root/.vp/EVIDENCE.schema.json'))
for f in sorted(glob.glob('/verif/evidence/*.json')):
    jsonschema.validate(json.load(open(f)), es)
    print('evidence ok', f)
props = [json.loads(l)['id'] for l in open('/verif/properties.jsonl')]
claimed = {c['property_id'] for c in m['checks']}
na = {c['property_id'] for c in m.get('not_applicable', [])}
print('manifest ok; claimed', sorted(claimed), 'n/a', sorted(na), 'unlisted', sorted(set(props) - claimed - na))
