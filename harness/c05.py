"""C05 - fault containment: a failing handler never loses, duplicates or reorders events.

Engine A + inline worker.  Program skeleton fixed per condition; symbolic: times/delays,
priorities, replication length and the fault mask (one symbolic bool per slot: the handler
does all its work - recording, scheduling children - and then raises).
VF_STRATEGY 1 LOG_AND_CONTINUE, 2 WARN_AND_CONTINUE, 3 WARN_AND_PAUSE
VF_RUNMODE  start | bounded (run_up_to_including(b) first, b symbolic) | steps (step() until
            nothing is left before the end, then start())
Oracle: continue strategies - trace with faults == fault-free reference trace, ENDED at end.
pause strategy - the run stops right after each failing slot (STOPPED / replication STARTED /
clock = its time, nothing later executed), every further start() resumes, the concatenation
equals the reference trace.  step(): nothing but (optionally) DSOLError escapes, afterwards
STOPPED, START/STOP notifications balanced, the next command works.
"""
from typing import List

from harness.simmodel import (TableModel, Ref, make_sim, conv, settle, quiet, SingleReplication,
                              RunState, ReplicationState, DSOLError, ErrorStrategy)
from pydsol.core.pubsub import EventListener
from pydsol.core.simulator import Simulator
from vf import rt

KINDS = [int(c) for c in rt.envstr("VF_KINDS", "001")]
PARENTS = [int(x) for x in rt.envstr("VF_PARENTS", "-1,-1,0").split(",")]
K = len(KINDS)
VMAX = rt.envint("VF_VMAX", 3)
STRATEGY = rt.envint("VF_STRATEGY", 1)
RUNMODE = rt.envstr("VF_RUNMODE", "start")
PRIOSYM = rt.envint("VF_PRIOSYM", 1)
LOGLEVEL = rt.envint("VF_LOGLEVEL", -2)   # -2: set_error_strategy(strategy); else the documented log-level override
FIXFAILS = [c == "1" for c in rt.envstr("VF_FIXFAILS", "")]     # split: fix the fault mask


class Spy(EventListener):
    def __init__(self):
        self.log = []

    def notify(self, event):
        self.log.append(event.event_type.name)


def _same(a, b):
    if len(a) != len(b):
        return False
    for m in range(len(a)):
        if a[m][1] != b[m][1] or a[m][0] != b[m][0]:
            return False
    return True


def _balanced(log):
    depth = 0
    for n in log:
        if n == Simulator.START_EVENT.name:
            depth += 1
        elif n == Simulator.STOP_EVENT.name:
            depth -= 1
        if depth < 0 or depth > 1:
            return False
    return depth == 0


def faulty(vals, prios, fails, end, bound):
    sim = make_sim()
    cancels = [-1] * K
    model = TableModel(sim, KINDS, vals, prios, PARENTS, cancels, fails=fails)
    rep = SingleReplication("rep", conv(0), conv(0), conv(end))
    if LOGLEVEL == -2:
        sim.set_error_strategy(STRATEGY)
    else:
        sim.set_error_strategy(STRATEGY, LOGLEVEL)
    quiet(sim.initialize, model, rep)
    spy = Spy()
    sim.add_listener(Simulator.START_EVENT, spy)
    sim.add_listener(Simulator.STOP_EVENT, spy)
    ENDT = conv(end)
    ref = Ref(KINDS, vals, prios, PARENTS, cancels, warmup=0)
    ref.run(ENDT, True)
    guard = 0
    if RUNMODE == "steps":
        while guard < 2 * K + 4:
            guard += 1
            if sim.run_state == RunState.ENDED or sim.eventlist().is_empty():
                break
            nxt = sim.eventlist().peek_first()
            if nxt.time > ENDT:
                break
            before = len(model.trace)
            try:
                quiet(sim.step)
            except DSOLError:
                pass
            except Exception as e:      # noqa
                return rt.fail("C05:step-escaped-" + type(e).__name__, lambda: f"after {model.trace}")
            settle(sim)
            if sim.run_state != RunState.STOPPED:
                return rt.fail("C05:step-state", lambda: f"{sim.run_state} after step; trace {model.trace}")
            if len(model.trace) > before + 1:
                return rt.fail("C05:step-executed-more-than-one", lambda: f"{model.trace}")
            if not _balanced(spy.log):
                return rt.fail("C05:step-start-stop-unbalanced", lambda: f"{spy.log}")
    elif RUNMODE == "bounded":
        try:
            quiet(sim.run_up_to_including, conv(bound))
        except DSOLError:
            return rt.fail("C05:bounded-run-refused", lambda: f"bound {bound}")
        settle(sim)
    # now start() until the replication has ended; under WARN_AND_PAUSE every fault pauses
    while sim.run_state != RunState.ENDED and guard < 3 * K + 8:
        guard += 1
        before = len(model.trace)
        try:
            quiet(sim.start)
        except DSOLError:
            return rt.fail("C05:start-refused", lambda: f"{sim.run_state} {sim.replication_state} trace {model.trace}")
        settle(sim)
        if STRATEGY == 3 and sim.run_state != RunState.ENDED:
            # paused: must be right after a failing slot, nothing later executed
            if sim.run_state != RunState.STOPPED or sim.replication_state != ReplicationState.STARTED:
                return rt.fail("C05:pause-state", lambda: f"{sim.run_state} {sim.replication_state}")
            if len(model.trace) == before:
                return rt.fail("C05:pause-without-progress", lambda: f"{model.trace}")
            last = model.trace[-1]
            if not fails[last[1]]:
                return rt.fail("C05:paused-after-non-failing-event", lambda: f"{model.trace} fails {fails}")
            if sim.simulator_time != last[0]:
                return rt.fail("C05:pause-clock", lambda: f"clock {sim.simulator_time} last event {last}")
            for m in range(before, len(model.trace) - 1):
                if fails[model.trace[m][1]]:
                    return rt.fail("C05:ran-on-after-fault", lambda: f"{model.trace} fails {fails}")
        elif sim.run_state != RunState.ENDED:
            return rt.fail("C05:not-ended", lambda: f"{sim.run_state} {sim.replication_state} trace {model.trace}")
    if sim.run_state != RunState.ENDED or sim.replication_state != ReplicationState.ENDED:
        return rt.fail("C05:final-state", lambda: f"{sim.run_state} {sim.replication_state}")
    if not _same(model.trace, ref.trace):
        return rt.fail("C05:trace-differs-from-fault-free", lambda: f"executed {model.trace} expected {ref.trace} fails {fails}")
    if sim.simulator_time != ENDT:
        return rt.fail("C05:final-clock", lambda: f"{sim.simulator_time}")
    if not _balanced(spy.log):
        return rt.fail("C05:start-stop-unbalanced", lambda: f"{spy.log}")
    return True


def h_fault(vals: List[int], prios: List[int], fails: List[bool], end: int, bound: int) -> bool:
    """
    pre: len(vals) == K and len(prios) == K and len(fails) == K
    pre: all(0 <= v <= VMAX for v in vals)
    pre: all(0 <= p <= 2 * PRIOSYM for p in prios)
    pre: 1 <= end <= VMAX + 1
    pre: 0 <= bound <= VMAX + 1
    pre: RUNMODE == "bounded" or bound == 0
    pre: all(fails[i] == FIXFAILS[i] for i in range(len(FIXFAILS)))
    post: _
    """
    return faulty(vals, prios, fails, end, bound)
