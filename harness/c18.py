"""C18 - input parameters always hold a valid value, addressable by their dotted key.

Engine A on the real parameter classes.  Dict keys come from a pool through symbolic indices (a
symbolic str used as a dict key is concretised when hashed); everything else is symbolic.
"""
import math
from typing import List

from pydsol.core.model import DSOLModel
from pydsol.core.parameters import (InputParameterBool, InputParameterFloat, InputParameterInt, InputParameterMap,
                                    InputParameterQuantity, InputParameterSelectionList, InputParameterStr,
                                    InputParameterUnit)
from pydsol.core.simulator import DEVSSimulatorFloat
from pydsol.core.units import Duration, Length
from vf import rt

NA = rt.envint("VF_NA", 2)          # set_value attempts
UNBOUNDED = rt.envint("VF_UNBOUNDED", 0)
KEYS = ["a", "b", "c"]
NADD = rt.envint("VF_NADD", 3)
FIXRM = rt.envint("VF_FIXRM", -2)     # split: which add is removed afterwards (-1 none)
FIXRO = rt.envint("VF_FIXRO", -1)     # split: read_only fixed (0/1)


def _attempt_value(kind, iv, fv, sv):
    """attempts of the right and of wrong types"""
    return [iv, fv, sv, True, None, math.nan][kind]


def _try(p, v):
    """returns 'ok' / 'rejected' / 'other:<T>'"""
    try:
        p.set_value(v)
    except (ValueError, TypeError):
        return "rejected"
    except Exception as e:      # noqa
        return "other:" + type(e).__name__
    return "ok"


def _generic(p, default, read_only, valid, attempts, tag):
    """common oracle: after every attempt the value is valid; a rejected attempt changes nothing;
    read-only never changes; the default never changes"""
    for v in attempts:
        before = p.value
        res = _try(p, v)
        if res.startswith("other"):
            return rt.fail(f"C18:{tag}-set_value-raised-{res[6:]}", lambda: f"value {v!r}")
        if read_only and (res == "ok" or p.value is not before):
            return rt.fail(f"C18:{tag}-read-only-changed", lambda: f"set_value({v!r}) -> {res}, value {p.value!r}")
        if res == "rejected" and p.value is not before and p.value != before:
            return rt.fail(f"C18:{tag}-rejected-attempt-changed-value", lambda: f"set_value({v!r}): {before!r} -> {p.value!r}")
        if res == "ok" and not read_only:
            if not valid(v):
                return rt.fail(f"C18:{tag}-invalid-value-accepted", lambda: f"set_value({v!r})")
            if p.value is not v and p.value != v:
                return rt.fail(f"C18:{tag}-accepted-value-not-stored", lambda: f"set_value({v!r}) value {p.value!r}")
        if res == "rejected" and not read_only and valid(v):
            return rt.fail(f"C18:{tag}-valid-value-rejected", lambda: f"set_value({v!r})")
        if not valid(p.value):
            return rt.fail(f"C18:{tag}-holds-invalid-value", lambda: f"{p.value!r}")
        if p.default_value is not default and p.default_value != default:
            return rt.fail(f"C18:{tag}-default-changed", lambda: f"{p.default_value!r}")
    return True


def h_int(lo: int, hi: int, default: int, read_only: bool, kinds: List[int], ivs: List[int], fv: float, sv: str) -> bool:
    """
    pre: len(kinds) == NA and len(ivs) == NA
    pre: all(0 <= k <= 5 for k in kinds)
    pre: len(sv) <= 1
    post: _
    """
    mn, mx = (-math.inf, math.inf) if UNBOUNDED else (lo, hi)
    try:
        p = InputParameterInt("k", "n", default, 1.0, read_only=read_only, min_value=mn, max_value=mx)
    except (ValueError, TypeError):
        if mn < mx and mn <= default <= mx:
            return rt.fail("C18:int-valid-constructor-refused", lambda: f"[{mn},{mx}] default {default}")
        return True
    if not (mn < mx and mn <= default <= mx):
        return rt.fail("C18:int-invalid-constructor-accepted", lambda: f"[{mn},{mx}] default {default}")
    valid = lambda v: isinstance(v, int) and mn <= v <= mx
    return _generic(p, default, read_only, valid, [_attempt_value(kinds[i], ivs[i], fv, sv) for i in range(NA)], "int")


def h_float(lo: float, hi: float, default: float, read_only: bool, kinds: List[int], fvs: List[float], iv: int, sv: str) -> bool:
    """
    pre: len(kinds) == NA and len(fvs) == NA
    pre: all(0 <= k <= 5 for k in kinds)
    pre: len(sv) <= 1
    pre: lo == lo and hi == hi and default == default
    pre: FIXRO < 0 or read_only == (FIXRO == 1)
    post: _
    """
    mn, mx = (-math.inf, math.inf) if UNBOUNDED else (lo, hi)
    try:
        p = InputParameterFloat("k", "n", default, 1.0, read_only=read_only, min_value=mn, max_value=mx)
    except (ValueError, TypeError):
        if mn < mx and mn <= default <= mx:
            return rt.fail("C18:float-valid-constructor-refused", lambda: f"[{mn},{mx}] default {default}")
        return True
    if not (mn < mx and mn <= default <= mx):
        return rt.fail("C18:float-invalid-constructor-accepted", lambda: f"[{mn},{mx}] default {default}")
    valid = lambda v: isinstance(v, (int, float)) and mn <= v <= mx
    return _generic(p, default, read_only, valid, [_attempt_value(kinds[i], iv, fvs[i], sv) for i in range(NA)], "float")


def h_str_bool(which: int, read_only: bool, kinds: List[int], iv: int, sv: str, sv2: str, b: bool) -> bool:
    """
    pre: 0 <= which <= 1
    pre: len(kinds) == NA and all(0 <= k <= 5 for k in kinds)
    pre: len(sv) <= 1 and len(sv2) <= 1
    post: _
    """
    if which == 0:
        p = InputParameterStr("k", "n", sv2, 1.0, read_only=read_only)
        valid = lambda v: isinstance(v, str)
        return _generic(p, sv2, read_only, valid, [_attempt_value(k, iv, 0.5, sv) for k in kinds], "str")
    p = InputParameterBool("k", "n", b, 1.0, read_only=read_only)
    valid = lambda v: isinstance(v, bool)
    return _generic(p, b, read_only, valid, [_attempt_value(k, iv, 0.5, sv) for k in kinds], "bool")


OPTS = ["x", "y", "zz", ""]


def h_selection(nopt: int, di: int, read_only: bool, picks: List[int], sv: str, unit: bool) -> bool:
    """
    pre: 1 <= nopt <= 4 and 0 <= di < 4
    pre: len(picks) == NA and all(0 <= k <= 6 for k in picks)
    pre: len(sv) <= 2
    post: _
    """
    if unit:
        options = list(Duration._units.keys())
        default = options[di]
        p = InputParameterUnit("k", "n", Duration, default, 1.0, read_only=read_only)
        cand = [options[0], options[3], "nonsense", sv, None, 7, options[-1]]
    else:
        options = OPTS[:nopt]
        default = OPTS[di]
        try:
            p = InputParameterSelectionList("k", "n", options, default, 1.0, read_only=read_only)
        except (ValueError, TypeError):
            if di < nopt:
                return rt.fail("C18:selection-valid-constructor-refused", lambda: f"{options} default {default!r}")
            return True
        if di >= nopt:
            return rt.fail("C18:selection-invalid-constructor-accepted", lambda: f"{options} default {default!r}")
        cand = OPTS + [sv, None, 7]
    valid = lambda v: isinstance(v, str) and any(v == o for o in options)
    return _generic(p, default, read_only, valid, [cand[k] for k in picks], "selection")


QVALS = [Duration(1.0), Duration(2, "min"), Duration(-1.0), Duration(0.5, "h"), Length(3.0), 5.0, None]


def h_quantity(lo: int, hi: int, di: int, read_only: bool, picks: List[int]) -> bool:
    """
    pre: -100 <= lo <= 4000 and -100 <= hi <= 4000
    pre: 0 <= di <= 3
    pre: len(picks) == NA and all(0 <= k <= 6 for k in picks)
    post: _
    """
    mn, mx = (-math.inf, math.inf) if UNBOUNDED else (lo, hi)
    default = QVALS[di]
    try:
        p = InputParameterQuantity("k", "n", default, 1.0, read_only=read_only, min_si=mn, max_si=mx)
    except (ValueError, TypeError):
        if mn < mx and mn <= default.si <= mx:
            return rt.fail("C18:quantity-valid-constructor-refused", lambda: f"[{mn},{mx}] default {default}")
        return True
    if not (mn < mx and mn <= default.si <= mx):
        return rt.fail("C18:quantity-invalid-constructor-accepted", lambda: f"[{mn},{mx}] default {default}")
    valid = lambda v: isinstance(v, Duration) and mn <= v.si <= mx
    return _generic(p, default, read_only, valid, [QVALS[k] for k in picks], "quantity")


class _Model(DSOLModel):
    def construct_model(self):
        pass


def _rel_key(root, p):
    return p.extended_key()[len(root.key) + 1:]


def _check_tree(root, nodes, children, maps):
    """nodes: list of (param, parent_map); children: {id(map): [params in insertion order]}"""
    for p, par in nodes:
        if par is None:
            continue
        try:
            got = root.get(_rel_key(root, p))
        except KeyError:
            return rt.fail("C18:parameter-not-retrievable-by-extended-key", lambda: f"{p.extended_key()}")
        if got is not p:
            return rt.fail("C18:extended-key-retrieves-another-parameter", lambda: f"{p.extended_key()}")
    for mid, kids in children.items():
        m = maps[mid]
        listed = list(m.value.values())
        exp = sorted(kids, key=lambda q: q.display_priority)       # stable: ties in insertion order
        if len(listed) != len(exp) or any(a is not b for a, b in zip(listed, exp)):
            return rt.fail("C18:children-order", lambda: f"map {m.key}: {[q.key for q in listed]} expected {[q.key for q in exp]}")
    return True


def h_map(kidx: List[int], prios: List[int], parents: List[int], ismap: List[bool], bad_default: List[bool],
          rm: int) -> bool:
    """
    pre: len(kidx) == NADD and len(prios) == NADD and len(parents) == NADD and len(ismap) == NADD and len(bad_default) == NADD
    pre: all(0 <= k <= 1 for k in kidx) and all(0 <= p <= 1 for p in prios)
    pre: all(-1 <= parents[i] < i for i in range(NADD))
    pre: all(not bad_default[i] for i in range(NADD - 1))
    pre: -1 <= rm < NADD
    pre: FIXRM == -2 or rm == FIXRM
    post: _
    """
    root = InputParameterMap("root", "root", 1)
    made = []                  # per add: the parameter or None (refused)
    nodes = [(root, None)]
    children = {id(root): []}
    maps = {id(root): root}
    for i in range(NADD):
        par = root
        if parents[i] >= 0:
            cand = made[parents[i]]
            if cand is None or not isinstance(cand, InputParameterMap):
                made.append(None)
                continue
            par = cand
        key = KEYS[kidx[i]]
        dup = any(q.key == key for q in children[id(par)])
        before = [q for q in par.value.values()]
        try:
            if ismap[i]:
                p = InputParameterMap(key, "m", prios[i], parent=par)
            else:
                # an out-of-range default must be refused and leave the parent unchanged
                p = InputParameterInt(key, "p", 7 if bad_default[i] else 1, prios[i], parent=par, min_value=0, max_value=5)
        except (ValueError, TypeError):
            after = [q for q in par.value.values()]
            if len(after) != len(before) or any(a is not b for a, b in zip(after, before)):
                return rt.fail("C18:refused-add-changed-the-map", lambda: f"key {key!r} in map {par.key}: {[q.key for q in after]}")
            if not dup and not (bad_default[i] and not ismap[i]):
                return rt.fail("C18:valid-add-refused", lambda: f"key {key!r} in map {par.key}")
            made.append(None)
            continue
        if dup or (bad_default[i] and not ismap[i]):
            return rt.fail("C18:invalid-add-accepted", lambda: f"key {key!r} dup={dup} in map {par.key}")
        made.append(p)
        nodes.append((p, par))
        children[id(par)].append(p)
        if isinstance(p, InputParameterMap):
            children[id(p)] = []
            maps[id(p)] = p
        if not _check_tree(root, nodes, children, maps):
            return False
    if rm >= 0 and made[rm] is not None:
        p = made[rm]
        par = [q for n, q in nodes if n is p][0]
        try:
            got = root.remove(_rel_key(root, p))
        except KeyError:
            return rt.fail("C18:parameter-not-removable-by-extended-key", lambda: f"{p.extended_key()}")
        if got is not p:
            return rt.fail("C18:remove-returned-another-parameter", lambda: f"{p.key}")
        # drop p and its subtree from the reference
        dead = [p]
        grew = True
        while grew:
            grew = False
            for n, q in nodes:
                if q is not None and any(q is d for d in dead) and not any(n is d for d in dead):
                    dead.append(n)
                    grew = True
        nodes = [(n, q) for n, q in nodes if not any(n is d for d in dead)]
        children[id(par)] = [q for q in children[id(par)] if q is not p]
        for d in dead:
            children.pop(id(d), None)
            maps.pop(id(d), None)
        try:
            root.get(_rel_key(root, p))
            return rt.fail("C18:removed-parameter-still-retrievable", lambda: f"{p.key}")
        except KeyError:
            pass
        if not _check_tree(root, nodes, children, maps):
            return False
    return True


def h_model(ki: int, sub: bool, iv: int, lo: int, hi: int) -> bool:
    """
    pre: 0 <= ki <= 2
    pre: lo < hi and lo <= 1 <= hi
    post: _
    """
    m = _Model(DEVSSimulatorFloat("s"))
    key = KEYS[ki]
    if sub:
        sm = InputParameterMap("grp", "group", 1)
        m.add_parameter(sm)
        InputParameterInt(key, "p", 1, 1, parent=sm, min_value=lo, max_value=hi)
        full = "grp." + key
    else:
        m.add_parameter(InputParameterInt(key, "p", 1, 1, min_value=lo, max_value=hi))
        full = key
    try:
        m.set_parameter(full, iv)
    except (ValueError, TypeError):
        if lo <= iv <= hi:
            return rt.fail("C18:model-valid-set_parameter-refused", lambda: f"{full}={iv} in [{lo},{hi}]")
        if m.get_parameter(full) != 1:
            return rt.fail("C18:model-refused-set_parameter-changed-value", lambda: f"{m.get_parameter(full)}")
        return True
    except Exception as e:      # noqa
        return rt.fail("C18:model-set_parameter-raised-" + type(e).__name__, lambda: f"{full}={iv}: {e!r}")
    if not (lo <= iv <= hi):
        return rt.fail("C18:model-invalid-set_parameter-accepted", lambda: f"{full}={iv} in [{lo},{hi}]")
    if m.get_parameter(full) != iv:
        return rt.fail("C18:model-get-after-set-differs", lambda: f"{m.get_parameter(full)} != {iv}")
    # the parameter is removed from the tree and replaced by another one under the same key: the model must
    # address the one that is in the tree now
    old = m.input_parameters.remove(full)
    try:
        m.get_parameter(full)
        return rt.fail("C18:model-returns-a-removed-parameter", lambda: f"{full}")
    except KeyError:
        pass
    parent = m.input_parameters.get("grp") if sub else m.input_parameters
    new = InputParameterInt(key, "p2", 50, 1, parent=parent, min_value=40, max_value=60)
    if m.get_parameter(full) != 50:
        return rt.fail("C18:model-addresses-a-stale-parameter", lambda: f"get_parameter({full!r}) = {m.get_parameter(full)}, the tree holds {new.value}")
    try:
        m.set_parameter(full, 55)
    except (ValueError, TypeError):
        return rt.fail("C18:model-addresses-a-stale-parameter", lambda: "set_parameter validated against the removed parameter's bounds")
    if new.value != 55 or m.get_parameter(full) != 55 or old.value != iv:
        return rt.fail("C18:model-addresses-a-stale-parameter", lambda: f"new {new.value} old {old.value}")
    return True
