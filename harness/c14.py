"""C14 - draws are a pure function of parameters and stream output, within the support.

Replay functions (real code, scripted stream) and the Engine-A harness for purity, isolation and
stream re-pointing (scripted streams whose uniforms are chosen from a grid by symbolic indices).
"""
import math
from typing import List

import pydsol.core.distributions as D
from pydsol.core.streams import StreamInterface
from vf import rt


class Scripted(StreamInterface):
    """delivers the given uniforms first, then a fixed equidistributed tail (multiples of the golden ratio
    mod 1: rejection samplers terminate on it); counts every call"""

    def __init__(self, us):
        self.us = list(us)
        self.i = 0
        self.calls = 0

    def next_float(self):
        if self.i < len(self.us):
            v = self.us[self.i]
        else:
            v = ((self.i - len(self.us) + 1) * 0.6180339887498949) % 1.0
        self.i += 1
        self.calls += 1
        return v

    def next_bool(self):
        return self.next_float() < 0.5

    def next_int(self, lo, hi):
        return lo + math.floor((hi - lo + 1) * self.next_float())

    def seed(self):
        return 0

    def original_seed(self):
        return 0

    def set_seed(self, seed):
        pass

    def reset(self):
        self.i = 0

    def save_state(self):
        return self.i

    def restore_state(self, state):
        self.i = state


# class name -> (constructor argument names, support check on (value, params))
SUPPORT = {
    "DistBernoulli": lambda v, a: v in (0, 1),
    "DistBeta": lambda v, a: 0.0 <= v <= 1.0,
    "DistBinomial": lambda v, a: isinstance(v, int) and 0 <= v <= a[0],
    "DistConstant": lambda v, a: v == a[0],
    "DistDiscreteUniform": lambda v, a: isinstance(v, int) and a[0] <= v <= a[1],
    "DistErlang": lambda v, a: v >= 0.0,
    "DistExponential": lambda v, a: v >= 0.0,
    "DistGamma": lambda v, a: v >= 0.0,
    "DistGeometric": lambda v, a: isinstance(v, int) and v >= 0,
    "DistLogNormal": lambda v, a: v > 0.0,
    "DistNegBinomial": lambda v, a: isinstance(v, int) and v >= 0,
    "DistNormal": lambda v, a: v == v,
    "DistNormalTrunc": lambda v, a: a[2] <= v <= a[3],
    "DistPearson5": lambda v, a: v > 0.0,
    "DistPearson6": lambda v, a: v > 0.0,
    "DistPoisson": lambda v, a: isinstance(v, int) and v >= 0,
    "DistTriangular": lambda v, a: a[0] <= v <= a[2],
    "DistUniform": lambda v, a: a[0] <= v <= a[1],
    "DistWeibull": lambda v, a: v >= 0.0,
}


def r_draw(cname, params, us, ndraws=3) -> bool:
    """replay: construct with a scripted stream delivering `us`, draw, check no exception + support"""
    cls = getattr(D, cname)
    st = Scripted(us)
    try:
        d = cls(st, *params)
    except Exception as e:      # noqa
        return rt.fail(f"C14:{cname}:constructor-raised-{type(e).__name__}", f"{cname}{tuple(params)}: {e!r}")
    for k in range(ndraws):
        try:
            v = d.draw()
        except Exception as e:      # noqa
            zero = ":p=0" if cname in ("DistGeometric", "DistNegBinomial") and params[-1] == 0.0 else ""
            return rt.fail(f"C14:{cname}:draw-raised-{type(e).__name__}{zero}", f"{cname}{tuple(params)} uniforms {us}: {e!r}")
        if not SUPPORT[cname](v, params):
            return rt.fail(f"C14:{cname}:draw-outside-support", f"{cname}{tuple(params)} uniforms {us}: draw {v!r}")
    return True


def r_construct(cname, params, expect_ok) -> bool:
    cls = getattr(D, cname)
    try:
        cls(Scripted([0.5]), *params)
    except (ValueError, TypeError) as e:
        if expect_ok:
            return rt.fail(f"C14:{cname}:valid-parameters-rejected", f"{cname}{tuple(params)}: {e!r}")
        return True
    except Exception as e:      # noqa
        return rt.fail(f"C14:{cname}:constructor-raised-{type(e).__name__}", f"{cname}{tuple(params)}: {e!r}")
    if not expect_ok:
        return rt.fail(f"C14:{cname}:invalid-parameters-accepted", f"{cname}{tuple(params)}")
    return True


# ------------------------------------------------------------------ Engine A: purity / isolation / re-pointing
GRID = [0.0, 0.3, 0.5, 0.72, 0.9999999999999999]
CASES = [
    ("DistBernoulli", [(0.3,), (1.0,)]), ("DistBeta", [(0.5, 2.0), (2.0, 1.0)]), ("DistBinomial", [(3, 0.4)]),
    ("DistConstant", [(2.5,)]), ("DistDiscreteUniform", [(-2, 3)]), ("DistErlang", [(2.0, 3), (0.5, 12)]),
    ("DistExponential", [(2.0,)]), ("DistGamma", [(0.5, 2.0), (1.0, 1.0), (3.5, 0.5)]), ("DistGeometric", [(0.3,), (1.0,)]),
    ("DistLogNormal", [(0.0, 0.5)]), ("DistNegBinomial", [(2, 0.4)]), ("DistNormal", [(1.0, 2.0)]),
    ("DistNormalTrunc", [(0.0, 1.0, -1.0, 2.0)]), ("DistPearson5", [(2.0, 1.0), (0.5, 1.0)]), ("DistPearson6", [(2.0, 3.0, 1.0)]),
    ("DistPoisson", [(1.5,)]), ("DistTriangular", [(0.0, 1.0, 3.0), (0.0, 0.0, 1.0), (0.0, 1.0, 1.0)]), ("DistUniform", [(-1.0, 1.0)]),
    ("DistWeibull", [(1.5, 2.0)]),
]
CI = rt.envint("VF_CASE", 0)
NU = rt.envint("VF_NU", 2)


def _pick(i):
    """explicit fork per grid index: the uniform is a CONCRETE double on every path (math.log etc. of a
    lazily selected symbolic float would be concretised one value per path anyway)"""
    for k in range(len(GRID)):
        if i == k:
            return GRID[k]
    return GRID[0]


def _same(a, b):
    return (a != a and b != b) or a == b


def h_purity(pi: int, ui: List[int], uj: List[int], ndraw: int) -> bool:
    """
    pre: 0 <= pi < len(CASES[CI][1])
    pre: len(ui) == NU and len(uj) == 1
    pre: all(0 <= i < 5 for i in ui) and all(0 <= i < 5 for i in uj)
    pre: 1 <= ndraw <= 3
    post: _
    """
    cname, plist = CASES[CI]
    cls = getattr(D, cname)
    params = plist[pi]
    us = [_pick(i) for i in ui]
    vs = [_pick(i) for i in uj] + [0.41]
    # twins on twin scripts
    s1, s2 = Scripted(us), Scripted(us)
    d1, d2 = cls(s1, *params), cls(s2, *params)
    a, b = [], []
    for _ in range(ndraw):
        try:
            a.append(d1.draw())
            b.append(d2.draw())
        except Exception as e:      # noqa
            return rt.fail(f"C14:{cname}:draw-raised-{type(e).__name__}", lambda: f"{cname}{params} uniforms {us}: {e!r}")
    if len(a) != len(b) or any(not _same(x, y) for x, y in zip(a, b)) or s1.calls != s2.calls:
        return rt.fail(f"C14:{cname}:twin-instances-differ", lambda: f"{cname}{params} uniforms {us}: {a} vs {b}")
    for v in a:
        if not SUPPORT[cname](v, params):
            return rt.fail(f"C14:{cname}:draw-outside-support", lambda: f"{cname}{params} uniforms {us}: {v!r}")
    # isolation: a third instance on its own stream, interleaved with another instance on another stream
    s3, s4 = Scripted(us), Scripted(vs)
    d3, d4 = cls(s3, *params), cls(s4, *params)
    c = []
    for _ in range(ndraw):
        d4.draw()
        c.append(d3.draw())
        d4.draw()
    if any(not _same(x, y) for x, y in zip(a, c)):
        return rt.fail(f"C14:{cname}:instances-influence-each-other", lambda: f"{cname}{params}: alone {a}, interleaved {c}")
    # re-pointing: after dist.stream = other the old stream is never consumed again, and the draws are
    # those of a fresh instance on the new stream (no cached value from the old stream survives)
    s5, s6 = Scripted(us), Scripted(vs)
    d5 = cls(s5, *params)
    d5.draw()
    used = s5.calls
    d5.stream = s6
    e = [d5.draw() for _ in range(ndraw)]
    if s5.calls != used:
        return rt.fail(f"C14:{cname}:old-stream-consumed-after-repointing", lambda: f"{cname}{params}: {s5.calls - used} more calls")
    s7 = Scripted(vs)
    d7 = cls(s7, *params)
    f = [d7.draw() for _ in range(ndraw)]
    if any(not _same(x, y) for x, y in zip(e, f)) or s6.calls != s7.calls:
        return rt.fail(f"C14:{cname}:draws-after-repointing-depend-on-the-old-stream", lambda: f"{cname}{params}: {e} vs fresh {f}")
    # the same stream object, rewound and assigned again: the draws are those of a fresh instance on that stream
    s8 = Scripted(us)
    d8 = cls(s8, *params)
    d8.draw()
    s8.reset()
    s8.calls = 0
    d8.stream = s8
    g = [d8.draw() for _ in range(ndraw)]
    if any(not _same(x, y) for x, y in zip(a, g)):
        return rt.fail(f"C14:{cname}:draws-after-reassigning-the-rewound-stream-differ-from-a-fresh-instance",
                       lambda: f"{cname}{params} uniforms {us}: {g} vs fresh {a}")
    return True


# ---------------------------------------------------------------------------------------------------------------
# "every parameter set inside the documented domain yields a usable distribution" at the EXTREMES of the domain, in
# IEEE arithmetic (underflow of exp(-rate), overflow of products): concrete extreme parameter sets selected by a
# symbolic index (explicit fork), a leading uniform from the grid, then the equidistributed tail.  A draw must
# terminate within a budget of uniforms, must not raise and must lie in the support.
# ---------------------------------------------------------------------------------------------------------------
EXTREME = [
    ("DistPoisson", (1e-300,)), ("DistPoisson", (745.0,)), ("DistPoisson", (746.0,)), ("DistPoisson", (1000.0,)), ("DistPoisson", (1e6,)),
    ("DistExponential", (1e-300,)), ("DistExponential", (1e300,)),
    ("DistErlang", (1e-300, 1)), ("DistErlang", (1e300, 2)), ("DistErlang", (1.0, 400)),
    ("DistGeometric", (0.9999999999999999,)), ("DistGeometric", (1e-9,)),
    ("DistBernoulli", (0.0,)), ("DistBernoulli", (1.0,)),
    ("DistBinomial", (400, 0.5)), ("DistBinomial", (1, 1.0)),
    ("DistDiscreteUniform", (-10 ** 18, 10 ** 18)), ("DistDiscreteUniform", (7, 8)),
    ("DistUniform", (-1e300, 1e300)), ("DistUniform", (1.0, 1.0000000000000002)),
    ("DistWeibull", (1e3, 1e300)), ("DistNormal", (0.0, 1e300)), ("DistLogNormal", (0.0, 1e-300)),
    ("DistGamma", (1.0, 1e300)), ("DistGamma", (1e3, 1e-300)),
]
# not in the list (stated as outside the claim): parameter magnitudes whose intermediate results overflow or are absorbed in
# double precision by construction of the formula (hi - lo beyond 1.8e308, Geometric p below 2^-53 which acts like the recorded
# p = 0 finding, Pearson5 / Weibull scale 1e-300)
BUDGET = 20000


class Budgeted(Scripted):
    class Exhausted(Exception):
        pass

    def next_float(self):
        if self.calls >= BUDGET:
            raise Budgeted.Exhausted()
        return Scripted.next_float(self)


def h_extreme(ei: int, ui: int) -> bool:
    """
    pre: 0 <= ei < len(EXTREME)
    pre: 0 <= ui < 5
    post: _
    """
    cname, params = EXTREME[0]
    for k in range(len(EXTREME)):          # explicit fork: concrete parameters on every path
        if ei == k:
            cname, params = EXTREME[k]
    u = _pick(ui)
    st = Budgeted([u])
    try:
        d = getattr(D, cname)(st, *params)
    except Exception as e:      # noqa
        return rt.fail(f"C14:{cname}:constructor-raised-{type(e).__name__}:in-domain-extreme", lambda: f"{cname}{params}: {e!r}")
    for n in range(2):
        try:
            v = d.draw()
        except Budgeted.Exhausted:
            return rt.fail(f"C14:{cname}:draw-does-not-terminate", lambda: f"{cname}{params}: more than {BUDGET} uniforms consumed by one draw")
        except Exception as e:      # noqa
            return rt.fail(f"C14:{cname}:draw-raised-{type(e).__name__}:in-domain-extreme", lambda: f"{cname}{params} first uniform {u!r}: {e!r}")
        if not SUPPORT[cname](v, list(params)):
            return rt.fail(f"C14:{cname}:draw-outside-support:in-domain-extreme", lambda: f"{cname}{params} first uniform {u!r}: draw {v!r}")
    return True
