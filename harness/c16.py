"""C16 - SI unit strings with single-digit exponents round-trip through printing and parsing.
Engine A (CrossHair on the real string code).  The positions of the (up to three) non-zero
exponents are fixed per condition (VF_POS), their values (-3..3) and the print format are symbolic."""
from typing import List

from pydsol.core.units import SI
from vf import rt

POS = [int(c) for c in rt.envstr("VF_POS", "3,4,7").split(",")]
FMT = rt.envint("VF_FMT", -1)      # -1 symbolic, else fixed 0..7


def h_roundtrip(exps: List[int], fmt: int) -> bool:
    """
    pre: len(exps) == len(POS)
    pre: all(-3 <= e <= 3 for e in exps)
    pre: 0 <= fmt <= 7
    pre: FMT < 0 or fmt == FMT
    post: _
    """
    sig = [0] * 9
    for k, p in enumerate(POS):
        sig[p] = exps[k]
    si = SI(1.0)
    si._sisig = list(sig)
    div = (fmt & 1) == 1
    hat = "^" if (fmt & 2) else ""
    dot = "." if (fmt & 4) else ""
    text = si.siunit(div, hat, dot)
    try:
        back = SI.str_to_sisig(text)
    except ValueError:
        return rt.fail("C16:printed-unit-not-parsable", lambda: f"signature {sig} printed as {text!r} (div={div} hat={hat!r} dot={dot!r})")
    if back != sig:
        return rt.fail("C16:unit-string-round-trip", lambda: f"signature {sig} printed as {text!r} parsed as {back}")
    return True


# ------------------------------------------------------------------ replay functions (real code)
import math
import pydsol.core.units as U


def _cls(name):
    return getattr(U, name)


def _sig(obj):
    return list(obj.sisig()) if not isinstance(obj, type) else list(obj.sisig())


def r_pair(an, bn, op, x, y) -> bool:
    """A(x) op B(y) for op in mul/div: class from the tables or SI, SI value, signature"""
    A, B = _cls(an), _cls(bn)
    a, b = A(float(x)), B(float(y))
    try:
        r = a * b if op == "mul" else a / b
    except ZeroDivisionError:
        if op == "div" and float(y) == 0.0:
            return True
        return rt.fail(f"C16:{op}-raised-ZeroDivisionError", f"{an}({x}) {op} {bn}({y})")
    except Exception as e:      # noqa
        return rt.fail(f"C16:{op}-raised-{type(e).__name__}", f"{an}({x}) {op} {bn}({y}): {e!r}")
    table = A._mul if op == "mul" else A._div
    exp_cls = table.get(B, U.SI)
    if type(r) is not exp_cls:
        return rt.fail(f"C16:{op}-result-type", f"{an} {op} {bn} gives {type(r).__name__}, tables say {exp_cls.__name__}")
    exp_sig = [p + q if op == "mul" else p - q for p, q in zip(A.sisig(), B.sisig())]
    got_sig = list(r.sisig())
    if got_sig != exp_sig:
        return rt.fail(f"C16:{op}-signature", f"{an} {op} {bn} -> {type(r).__name__} signature {got_sig}, operands give {exp_sig}")
    exp = float(x) * float(y) if op == "mul" else float(x) / float(y)
    if not math.isclose(r.si, exp, rel_tol=1e-12, abs_tol=0.0) and r.si != exp:
        return rt.fail(f"C16:{op}-si-value", f"{an}({x}) {op} {bn}({y}) = {r.si}, SI values give {exp}")
    return True


def r_mixed(an, bn, op) -> bool:
    """+ - < <= > >= between different types must be refused; == is False, != is True"""
    A, B = _cls(an), _cls(bn)
    a = A(2.0) if A is not U.SI else U.SI(2.0, "m")
    b = B(3.0) if B is not U.SI else U.SI(3.0, "s")
    import operator
    f = {"add": operator.add, "sub": operator.sub, "lt": operator.lt, "le": operator.le, "gt": operator.gt,
         "ge": operator.ge, "eq": operator.eq, "ne": operator.ne}[op]
    try:
        r = f(a, b)
    except (ValueError, TypeError):
        if op in ("eq", "ne"):
            return rt.fail("C16:equality-across-types-raised", f"{an} {op} {bn}")
        return True
    if op == "eq" and r is False:
        return True
    if op == "ne" and r is True:
        return True
    return rt.fail(f"C16:mixed-type-{op}-accepted", f"{an}(2.0) {op} {bn}(3.0) = {r!r}")


def r_same(an, op, x, y, unit_a, unit_b) -> bool:
    """same-type operations act on the SI values and keep the left operand's unit"""
    A = _cls(an)
    a, b = A(float(x), unit_a), A(float(y), unit_b)
    import operator
    if op in ("add", "sub"):
        r = operator.add(a, b) if op == "add" else operator.sub(a, b)
        exp = a.si + b.si if op == "add" else a.si - b.si
        if type(r) is not A or r.si != exp or r.unit != unit_a:
            return rt.fail(f"C16:same-type-{op}", f"{a!r} {op} {b!r} = {r!r} (si {r.si}, expected {exp}, unit {r.unit})")
        return True
    f = getattr(operator, op)
    if f(a, b) != f(a.si, b.si):
        return rt.fail(f"C16:same-type-{op}", f"{a!r} {op} {b!r} = {f(a, b)}, SI values give {f(a.si, b.si)}")
    return True


def r_scale(an, op, x, k) -> bool:
    A = _cls(an)
    a = A(float(x))
    try:
        r = {"mul": lambda: a * k, "rmul": lambda: k * a, "div": lambda: a / k, "rdiv": lambda: k / a}[op]()
    except ZeroDivisionError:
        return True
    except Exception as e:      # noqa
        return rt.fail(f"C16:scale-{op}-raised-{type(e).__name__}", f"{an}({x}) {op} {k}: {e!r}")
    if op == "rdiv":
        exp_sig = [-s for s in A.sisig()]
        if list(r.sisig()) != exp_sig or not math.isclose(r.si, k / float(x), rel_tol=1e-12):
            return rt.fail("C16:number-over-quantity", f"{k} / {an}({x}) = {r!r} sig {list(r.sisig())}")
        return True
    exp = float(x) * k if op != "div" else float(x) / k
    if type(r) is not A or not math.isclose(r.si, exp, rel_tol=1e-12) and r.si != exp:
        return rt.fail(f"C16:scale-{op}", f"{an}({x}) {op} {k} = {r!r}")
    return True


def r_as_quantity(qn, sig, x) -> bool:
    Q = _cls(qn)
    si = U.SI(float(x))
    si._sisig = list(sig)
    same = list(Q.sisig()) == list(sig)
    try:
        r = si.as_quantity(Q)
    except (ValueError, TypeError):
        if same:
            return rt.fail("C16:as_quantity-refused-matching-signature", f"{qn} {sig}")
        return True
    if not same:
        return rt.fail("C16:as_quantity-accepted-other-signature", f"SI{sig} as {qn} {list(Q.sisig())}")
    if type(r) is not Q or r.si != float(x):
        return rt.fail("C16:as_quantity-value", f"{r!r}")
    return True


def r_reuse(bn, op) -> bool:
    """a generic SI value used twice as left operand gives the same result twice and is itself unchanged"""
    B = _cls(bn)
    s = U.SI(2.0, "m")
    sig0, unit0 = list(s.sisig()), s.unit
    b = B(3.0)
    r1 = s * b if op == "mul" else s / b
    r2 = s * b if op == "mul" else s / b
    if list(s.sisig()) != sig0 or s.unit != unit0:
        return rt.fail("C16:operand-modified-by-operator", f"SI(2,'m') {op} {bn}(3): signature {sig0} -> {list(s.sisig())}")
    if list(r1.sisig()) != list(r2.sisig()) or r1.si != r2.si:
        return rt.fail("C16:same-operation-twice-gives-different-results", f"{r1!r} vs {r2!r}")
    return True
