"""C15 - replay functions (real code)."""
import math

import pydsol.core.distributions as D
import pydsol.core.utils as UT
from harness.c14 import Scripted
from vf import rt


def _mk(cname, params, us=(0.5,)):
    return getattr(D, cname)(Scripted(list(us)), *params)


def r_density(cname, params, x) -> bool:
    try:
        d = _mk(cname, params)
    except (ValueError, TypeError):
        return True
    f = d.probability_density if hasattr(d, "probability_density") else d.probability
    try:
        v = f(x)
    except Exception as e:      # noqa
        return rt.fail(f"C15:{cname}:density-raised-{type(e).__name__}", f"{cname}{tuple(params)} at {x}: {e!r}")
    if not (v >= 0):
        return rt.fail(f"C15:{cname}:negative-density", f"{cname}{tuple(params)} at {x}: {v}")
    import harness.c14 as H
    inside = {"DistBernoulli": x in (0, 1), "DistBeta": 0 < x < 1, "DistExponential": x >= 0, "DistGamma": x > 0,
              "DistUniform": len(params) == 2 and params[0] <= x <= params[1],
              "DistTriangular": len(params) == 3 and params[0] <= x <= params[2]}.get(cname, True)
    if not inside and v != 0:
        return rt.fail(f"C15:{cname}:density-outside-support", f"{cname}{tuple(params)} at {x}: {v}")
    return True


def r_pmf_sum(cname, params) -> bool:
    d = _mk(cname, params)
    if cname == "DistBernoulli":
        ks = [0, 1]
    elif cname == "DistBinomial":
        ks = range(params[0] + 1)
    else:
        ks = range(params[0], params[1] + 1)
    s = sum(d.probability(k) for k in ks)
    if not math.isclose(s, 1.0, rel_tol=1e-12):
        return rt.fail(f"C15:{cname}:probabilities-do-not-sum-to-one", f"{cname}{tuple(params)}: {s}")
    return True


def r_inverse_transform(cname, params, u) -> bool:
    try:
        d = _mk(cname, params, [u])
    except (ValueError, TypeError):
        return True
    v = d.draw()
    if cname == "DistUniform":
        lo, hi = params
        F = (v - lo) / (hi - lo)
        want = [u]
    elif cname == "DistExponential":
        F = 1 - math.exp(-v / params[0])
        want = [1 - u, u]
    else:
        lo, mode, hi = params
        F = (v - lo) ** 2 / ((hi - lo) * (mode - lo)) if (v <= mode and mode > lo) else 1 - (hi - v) ** 2 / ((hi - lo) * (hi - mode))
        want = [u]
    if not any(math.isclose(F, w, rel_tol=1e-9, abs_tol=1e-12) for w in want):
        return rt.fail(f"C15:{cname}:draw-disagrees-with-declared-distribution", f"{cname}{tuple(params)} u={u}: draw {v}, F(draw)={F}")
    return True


def r_cdf_roundtrip(cname, params, y) -> bool:
    d = _mk(cname, params)
    xx = d.inverse_cumulative_probability(y)
    back = d.cumulative_probability(xx)
    if not math.isclose(back, y, rel_tol=1e-6, abs_tol=1e-7):
        return rt.fail(f"C15:{cname}:cdf-inverse-not-inverse", f"{cname}{tuple(params)} y={y}: x={xx} cdf(x)={back}")
    if cname == "DistNormalTrunc" and not (params[2] <= xx <= params[3]):
        return rt.fail(f"C15:{cname}:inverse-outside-bounds", f"{xx}")
    return True


def r_erf_inv(_unused) -> bool:
    prev = None
    for i in range(-1000, 1001):
        y = i / 1000.0
        v = UT.erf_inv(y)
        if UT.erf_inv(-y) != -v:
            return rt.fail("C15:erf_inv-not-odd", f"y={y}")
        if prev is not None and not v >= prev:
            return rt.fail("C15:erf_inv-not-monotone", f"y={y}: {v} < {prev}")
        prev = v
        if abs(y) < 1 and abs(math.erf(v) - y) > 1e-6:
            return rt.fail("C15:erf_inv-not-inverse-of-erf", f"y={y}: erf(erf_inv(y))={math.erf(v)}")
    for b in (0.75, 0.9375):
        a1, a2 = UT.erf_inv(b - 1e-12), UT.erf_inv(b + 1e-12)
        if abs(a1 - a2) > 1e-6:
            return rt.fail("C15:erf_inv-pieces-disagree-at-break-point", f"{b}: {a1} vs {a2}")
    for bad in (1.5, -1.0000001):
        try:
            UT.erf_inv(bad)
            return rt.fail("C15:erf_inv-accepts-out-of-range", f"{bad}")
        except ValueError:
            pass
    return True


def r_density_shape(cname) -> bool:
    """numerical derivative of the closed-form cdf against the declared density on a grid"""
    import random
    rnd = random.Random(5)
    for _ in range(200):
        if cname == "DistUniform":
            lo = rnd.uniform(-3, 3); hi = lo + rnd.uniform(0.1, 5); params = (lo, hi)
            xx = rnd.uniform(lo, hi); exp = 1 / (hi - lo)
        elif cname == "DistExponential":
            m = rnd.uniform(0.1, 5); params = (m,); xx = rnd.uniform(0, 10); exp = math.exp(-xx / m) / m
        else:
            lo = rnd.uniform(-3, 3); mode = lo + rnd.uniform(0.1, 2); hi = mode + rnd.uniform(0.1, 2); params = (lo, mode, hi)
            xx = rnd.uniform(lo, hi)
            exp = 2 * (xx - lo) / ((hi - lo) * (mode - lo)) if xx <= mode else 2 * (hi - xx) / ((hi - lo) * (hi - mode))
        got = _mk(cname, params).probability_density(xx)
        if not math.isclose(got, exp, rel_tol=1e-9, abs_tol=1e-12):
            return rt.fail(f"C15:{cname}:density-is-not-the-derivative-of-the-cdf", f"{cname}{params} at {xx}: {got} expected {exp}")
    return True


def r_discrete_uniform(lo, hi) -> bool:
    """real DistDiscreteUniform on a real MersenneTwister whose generator delivers a fine grid of uniforms:
    every value of the support must be hit by a u-interval of length 1/n"""
    from pydsol.core.streams import MersenneTwister

    class Grid:
        def __init__(self):
            self.i = 0

        def random(self):
            v = (self.i + 0.5) / 7000.0
            self.i += 1
            return v

        def seed(self, s):
            self.i = 0
    for a, b in ((lo, hi), (-3, 3), (-5, -1), (0, 6), (2, 8)):
        st = MersenneTwister(1)
        st._random = Grid()
        d = D.DistDiscreteUniform(st, a, b)
        counts = {}
        for _ in range(7000):
            v = d.draw()
            counts[v] = counts.get(v, 0) + 1
        n = b - a + 1
        for k in range(a, b + 1):
            if abs(counts.get(k, 0) / 7000.0 - d.probability(k)) > 2.0 / 7000 * n:
                return rt.fail("C15:DistDiscreteUniform:draw-frequencies-disagree-with-probability",
                               f"[{a},{b}]: value {k} drawn on {counts.get(k, 0)}/7000 of an equidistant u-grid, probability {d.probability(k)}")
        if any(k < a or k > b for k in counts):
            return rt.fail("C15:DistDiscreteUniform:draw-outside-support", f"[{a},{b}]: {sorted(counts)}")
    return True


def r_family(ca, pa, cb, pb, x) -> bool:
    """replay: two classes that describe the same distribution must report the same density"""
    from pydsol.core.streams import MersenneTwister
    st = MersenneTwister(1)
    a = getattr(D, ca)(st, *pa).probability_density(x)
    b = getattr(D, cb)(st, *pb).probability_density(x)
    if abs(a - b) > 1e-9 * max(1.0, abs(a), abs(b)):
        return rt.fail(f"C15:{ca}:density-differs-from-{cb}-for-the-same-distribution", f"{ca}{tuple(pa)}.pdf({x}) = {a!r}, {cb}{tuple(pb)}.pdf({x}) = {b!r}")
    return True
