"""C02 - DEVS execution: each scheduled event runs exactly once, in time/priority order.

Engine A.  The program skeleton (kinds and parents of the K slots) is fixed per condition
(VF_KINDS, VF_PARENTS), everything else is symbolic: vals (times/delays, -1..VMAX: negative
delays and past times are illegal requests), priorities, cancel targets, the special-value
code per slot (float clock: NaN / +inf request times) and the replication length.
Oracle: the executed trace (clock inside the handler, slot) equals the reference semantics
restricted to time <= end; every request is accepted/refused as the reference says, a
refused request raises DSOLError and leaves the pending-event count unchanged.
"""
from typing import List

from harness.simmodel import (TableModel, Ref, make_sim, conv, settle, quiet, CLOCK, SingleReplication,
                              RunState, ReplicationState)
from vf import rt

KINDS = [int(c) for c in rt.envstr("VF_KINDS", "012")]
PARENTS = [int(x) for x in rt.envstr("VF_PARENTS", "-1,-1,0").split(",")]
K = len(KINDS)
VMAX = rt.envint("VF_VMAX", 4)
SPECIAL = rt.envint("VF_SPECIAL", 0)      # 1: special-value codes are symbolic (float clock)


def run_program(vals, prios, cancels, specials, end):
    sim = make_sim()
    specs = specials if SPECIAL else None
    model = TableModel(sim, KINDS, vals, prios, PARENTS, cancels, specs)
    rep = SingleReplication("rep", conv(0), conv(0), conv(end))
    quiet(sim.initialize, model, rep)
    quiet(sim.start)
    settle(sim)
    ref = Ref(KINDS, vals, prios, PARENTS, cancels, specs)
    ref.run(conv(end), True)
    if model.bad:
        return rt.fail("C02:request-" + model.bad[0][0], lambda: f"{model.bad}")
    if model.requests != ref.requests:
        return rt.fail("C02:request-outcome", lambda: f"(slot, accepted) real {model.requests} expected {ref.requests}")
    if len(model.trace) != len(ref.trace):
        return rt.fail("C02:trace-length", lambda: f"executed {model.trace} expected {ref.trace}")
    for n in range(len(ref.trace)):
        if model.trace[n][1] != ref.trace[n][1]:
            return rt.fail("C02:trace-order", lambda: f"executed {model.trace} expected {ref.trace}")
        if model.trace[n][0] != ref.trace[n][0]:
            return rt.fail("C02:clock-in-handler", lambda: f"executed {model.trace} expected {ref.trace}")
    if sim.simulator_time != conv(end):
        return rt.fail("C02:final-clock", lambda: f"final clock {sim.simulator_time} expected {conv(end)}")
    if sim.run_state != RunState.ENDED or sim.replication_state != ReplicationState.ENDED:
        return rt.fail("C02:final-state", lambda: f"{sim.run_state} {sim.replication_state}")
    return True


FIXCB = rt.envint("VF_FIXCB", -2)       # split: fix which slot's handler cancels (-1: nobody)
FIXCT = rt.envint("VF_FIXCT", -2)       # split: fix the cancelled slot


def h_run(vals: List[int], prios: List[int], cb: int, ct: int, specials: List[int], end: int) -> bool:
    """
    pre: len(vals) == K and len(prios) == K and len(specials) == K
    pre: all(-1 <= v <= VMAX for v in vals)
    pre: all(0 <= p <= 2 for p in prios)
    pre: -1 <= cb < K and 0 <= ct < K
    pre: FIXCB == -2 or cb == FIXCB
    pre: FIXCT == -2 or ct == FIXCT
    pre: all(0 <= s <= 2 * SPECIAL for s in specials)
    pre: 1 <= end <= VMAX + 1
    post: _
    """
    cancels = [-1] * K
    if cb >= 0:
        cancels[cb] = ct
    return run_program(vals, prios, cancels, specials, end)


def h_run2(vals: List[int], prios: List[int], cancels: List[int], specials: List[int], end: int) -> bool:
    """
    pre: len(vals) == K and len(prios) == K and len(cancels) == K and len(specials) == K
    pre: all(-1 <= v <= VMAX for v in vals)
    pre: all(0 <= p <= 2 for p in prios)
    pre: all(-1 <= c < K for c in cancels)
    pre: all(0 <= s <= 2 * SPECIAL for s in specials)
    pre: 1 <= end <= VMAX + 1
    post: _
    """
    return run_program(vals, prios, cancels, specials, end)
