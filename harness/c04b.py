"""C04 part 2 - a command that OVERLAPS the run thread's own transitions.

Engine A + sequentialiser (vf/seqthreads.py): the run thread (SimulatorWorkerThread.run and
DEVSSimulator._run) and the caller's commands (start, stop, bounded runs, end_replication and
their *_impl helpers) are rewritten FROM THE LIVE SOURCE into generators that yield before every
statement; the interleaving is data.  Scenario (VF_SCEN, a comma list such as "start,stop"):

   initialize                                   (at quiescence)
   for every command c of the scenario:
        run thread executes  v[c] statements     (it may still be in transition: overlap)
        caller executes the first p[c] statements of the command   (pre-emption point)
        run thread executes  w[c] statements
        fair round-robin until the command has returned
   fair round-robin until the caller is idle and the run thread is blocked on its wake-up flag or gone

v, p, w are SYMBOLIC integers (bounded per condition), so are the warm-up time and the bound of a
bounded run; the model has one event at time 1 and the replication runs 0..2.

Oracle at quiescence (nothing is predicted about whether an overlapping command is accepted):
  * a command returns normally or raises DSOLError - nothing else;
  * a refused command fired no STARTING / STOPPING / START_REPLICATION notification;
  * run state is INITIALIZED, STOPPED or ENDED - never STARTING / STARTED / STOPPING, which nobody
    would ever change again;
  * ENDED  <=>  replication ENDED  <=>  END_REPLICATION delivered (once, last); then the run thread
    has terminated and start/step/stop are refused;
  * the notification stream is well-formed (the part-1 stream rules);
  * every model event ran at most once, in order; all of them if the replication ended;
  * "takes effect": if the LAST accepted command is start (or a bounded run beyond the end), the
    replication has ended; if it is a bounded run to b < end, the simulator is STOPPED at b or ENDED
    is impossible;
  * not stuck: from a STOPPED quiescent state, start() (issued at quiescence) ends the replication
    with the complete trace.
Replay: the logged order of (thread, line) pairs is re-enacted on the REAL threaded simulator by
gating both threads on line events (vf.seqthreads.GatedReplay).
"""
import sys
import threading
from typing import List

from harness.c04 import Monitor, check_stream, ALL_TYPES
from harness.simmodel import (make_sim, conv, quiet, SingleReplication, RunState, ReplicationState, DSOLError)
from pydsol.core.model import DSOLModel
from vf import rt

SCEN = [c for c in rt.envstr("VF_SCEN", "start,stop").split(",") if c]
NC = len(SCEN)
END = rt.envint("VF_END", 2)
TIMES = [int(x) for x in rt.envstr("VF_TIMES", "1").split(",") if x]
VLO, VHI = rt.envint("VF_VLO", 0), rt.envint("VF_VHI", 45)     # range of v of the LAST command (earlier ones: 0..VHI)
PMAX = rt.envint("VF_PMAX", 14)
WMAX = rt.envint("VF_WMAX", 45)
FIXP = rt.envint("VF_FIXP", -1)                              # split: p of the last command fixed per condition
WSMALL = rt.envint("VF_WSMALL", 10 ** 6)                    # quick tier: the lead w is 0..WSMALL or "as far as it can go" (= WMAX)
FIXARG = rt.envint("VF_ARG", -1)                            # bound of the bounded runs: symbolic 1..3 or fixed
FIXWARM = rt.envint("VF_WARM", -1)                          # warm-up time: symbolic 0..2 or fixed
STALLS = rt.envstr("VF_STALLS", "")                         # "010": while command #1 completes the run thread makes no progress
VMID = rt.envint("VF_VMID", 0)                              # 1: the run thread's position before the command BEFORE the last is symbolic too
VMIDHI = rt.envint("VF_VMIDHI", 48)
MIDLO, MIDHI = rt.envint("VF_MIDLO", 0), rt.envint("VF_MIDHI", 48)
NSYM = rt.envint("VF_NSYM", 1)                              # how many trailing commands have symbolic v, p, w
HUGE = 10 ** 6

if rt.MODE == "symbolic":
    # sequentialise the live simulator module once, at import (outside the symbolic executor's tracing)
    from vf import seqthreads as _seq
    _seq.install()


class Model(DSOLModel):
    def __init__(self, sim, monitor):
        super().__init__(sim)
        self.monitor = monitor
        self.trace = []

    def construct_model(self):
        for i, t in enumerate(TIMES):
            self.simulator.schedule_event_abs(conv(t), self, "fire", 5, i=i)

    def fire(self, i):
        self.trace.append((self.simulator.simulator_time, i))
        self.monitor.log.append(("exec", self.simulator.simulator_time))


def _command_gen(sim, name, arg):
    if name == "start":
        return sim._vf_g_start()
    if name == "stop":
        return sim._vf_g_stop()
    if name == "runto":
        return sim._vf_g_run_up_to(conv(arg))
    if name == "runtoi":
        return sim._vf_g_run_up_to_including(conv(arg))
    if name == "endrep":
        return sim._vf_g_end_replication()
    raise RuntimeError(name)


def _command_real(sim, name, arg):
    if name == "start":
        return sim.start()
    if name == "stop":
        return sim.stop()
    if name == "runto":
        return sim.run_up_to(conv(arg))
    if name == "runtoi":
        return sim.run_up_to_including(conv(arg))
    if name == "endrep":
        return sim.end_replication()
    raise RuntimeError(name)


def _caller_prog(sim, name, arg, out):
    """generator: one command; the outcome is appended to out"""
    try:
        yield from _command_gen(sim, name, arg)
        out.append("ok")
    except DSOLError:
        out.append("refused")
    except Exception as e:      # noqa
        out.append("other:" + type(e).__name__ + ":" + str(e)[:80])


def _main_counts(mon):
    names = [n for n, _ in mon.log]
    return (names.count("STARTING_EVENT"), names.count("STOPPING_EVENT"), names.count("START_REPLICATION_EVENT"))


def oracle(sim, model, mon, results, args, warm, resume, thread_alive, marks=None):
    """the quiescent oracle; `resume(sim)` issues start() at quiescence and waits for quiescence"""
    where = f"scenario {SCEN} args {args} -> {results}"
    if marks is None:
        marks = [(0, 0)] * NC
    for name, res in zip(SCEN, results):
        if res.startswith("other"):
            return rt.fail("C04:overlap-" + name + "-raised-" + res.split(":")[1], lambda: f"{where}: {res}")
    rs, ps = sim.run_state, sim.replication_state
    names = [n for n, _ in mon.log]
    ended_seen = names.count("END_REPLICATION_EVENT")
    if rs not in (RunState.INITIALIZED, RunState.STOPPED, RunState.ENDED):
        return rt.fail("C04:overlap-quiescent-in-transient-run-state-" + rs.name,
                       lambda: f"{where}: caller idle, run thread {'alive' if thread_alive() else 'gone'}, states {rs}/{ps}; stream {names}")
    if (rs == RunState.ENDED) != (ps == ReplicationState.ENDED) or (ps == ReplicationState.ENDED) != (ended_seen == 1):
        return rt.fail("C04:overlap-ended-inconsistent", lambda: f"{where}: {rs}/{ps}, END_REPLICATION seen {ended_seen}x; stream {names}")
    if ps == ReplicationState.ENDING:
        return rt.fail("C04:overlap-quiescent-in-ENDING", lambda: f"{where}: {rs}/{ps}")
    log = list(mon.log)
    if ended_seen == 1:
        k = names.index("END_REPLICATION_EVENT")
        tail_names = names[k + 1:]
        n_starts = sum(1 for n, r in zip(SCEN, results) if n in ("start", "runto", "runtoi") and r == "ok")
        if tail_names and all(n == "STARTING_EVENT" for n in tail_names) and len(tail_names) <= max(0, n_starts - 1):
            # the same window for a start()/bounded run admitted while the run thread is ending the replication
            # (only reachable after a stop() that timed out on a stalled run thread): second recorded finding
            if not rt.fail("C04:overlap-STARTING_EVENT-of-an-admitted-start-delivered-after-END_REPLICATION",
                           lambda: f"{where}: stream {names}"):
                return False
            log = log[:k + 1]
        elif tail_names and all(n == "STOPPING_EVENT" for n in tail_names) and len(tail_names) <= sum(
                1 for n, r in zip(SCEN, results) if n == "stop" and r == "ok"):
            # a stop() that was admitted just before the natural end announces itself after END_REPLICATION:
            # one specific, recorded finding (see known_findings.json); anything else after END_REPLICATION is
            # still reported by the stream rules below
            if not rt.fail("C04:overlap-STOPPING_EVENT-of-an-admitted-stop-delivered-after-END_REPLICATION",
                           lambda: f"{where}: stream {names}"):
                return False
            log = log[:k + 1]
    bad = check_stream(log, warm, False)
    if bad:
        return rt.fail(bad + "-overlap", lambda: f"{where}: stream {mon.log}")
    idx = [i for _, i in model.trace]
    if idx != list(range(len(idx))):
        return rt.fail("C04:overlap-events-lost-or-duplicated", lambda: f"{where}: trace {model.trace}")
    acc_all = [(n, a) for n, a, r in zip(SCEN, args, results) if r == "ok"]
    if acc_all and acc_all[-1][0] in ("runto", "runtoi"):
        n, a = acc_all[-1]
        # after the command's STARTING_EVENT the new bound is in place: the iteration of the run loop that is in
        # flight may still execute ONE event beyond it (its decision was taken before), nothing more
        ks = [k for k, (nm, _) in enumerate(mon.log) if nm == "STARTING_EVENT"]
        if ks:
            after = mon.log[ks[-1] + 1:]
            beyond = [(nm, t) for nm, t in after if nm in ("exec", "WARMUP_EVENT")
                      and (t > conv(a) or (n == "runto" and t == conv(a)))]
            if len(beyond) > 1:
                return rt.fail("C04:overlap-accepted-bounded-run-ran-beyond-its-bound",
                               lambda: f"{where}: after its STARTING_EVENT {beyond} ran, bound {a}; stream {mon.log}")
    natural = "endrep" not in [n for n, r in zip(SCEN, results) if r == "ok"]
    if rs == RunState.ENDED:
        acc = [(n, a) for n, a, r in zip(SCEN, args, results) if r == "ok"]
        heading_to_end = any(n == "start" or (n in ("runto", "runtoi") and conv(a) >= conv(END)) for n, a in acc[:-1])
        if acc and acc[-1][0] in ("runto", "runtoi") and conv(acc[-1][1]) < conv(END) and natural and not heading_to_end:
            return rt.fail("C04:overlap-accepted-bounded-run-ended-the-replication",
                           lambda: f"{where}: the last admitted command is a bounded run to {acc[-1][1]} < end {END}; stream {names}")
        if natural and len(idx) != len(TIMES):
            return rt.fail("C04:overlap-ended-without-running-all-events", lambda: f"{where}: trace {model.trace}")
        if thread_alive():
            return rt.fail("C04:overlap-run-thread-not-terminated", lambda: where)
        for cmd in (sim.start, sim.step, sim.stop):
            try:
                quiet(cmd)
                return rt.fail("C04:overlap-command-accepted-after-end", lambda: f"{where}: {cmd.__name__}")
            except DSOLError:
                pass
            except Exception as e:      # noqa
                return rt.fail("C04:overlap-command-after-end-raised-" + type(e).__name__, lambda: where)
        return True
    # "takes effect": the last accepted command
    accepted = [(n, a, c) for c, (n, a, r) in enumerate(zip(SCEN, args, results)) if r == "ok"]
    if accepted:
        n, a, idx_last = accepted[-1]
        runs_to_end = n == "start" or (n in ("runto", "runtoi") and conv(a) > conv(END)) or (n == "runtoi" and conv(a) == conv(END))
        if runs_to_end:
            return rt.fail("C04:overlap-accepted-" + n + "-had-no-effect",
                           lambda: f"{where}: the last accepted command runs to the end of the replication, but the simulator is quiescent "
                                   f"in {rs}/{ps} at t={sim.simulator_time}; stream {names}")
        if n == "runto" and conv(a) == conv(END):
            return rt.fail("C04:overlap-accepted-runto-end-had-no-effect", lambda: f"{where}: {rs}/{ps}")
        if n in ("runto", "runtoi") and rs == RunState.STOPPED and sim.simulator_time != conv(a):
            return rt.fail("C04:overlap-accepted-bounded-run-clock", lambda: f"{where}: clock {sim.simulator_time}, bound {a}")
        if n == "endrep":
            return rt.fail("C04:overlap-accepted-end_replication-had-no-effect", lambda: f"{where}: {rs}/{ps}")
    # not stuck
    if rs in (RunState.INITIALIZED, RunState.STOPPED):
        try:
            resume(sim)
        except DSOLError as e:
            return rt.fail("C04:overlap-start-refused-at-quiescence", lambda: f"{where}: {rs}/{ps}: {e}")
        if sim.run_state != RunState.ENDED or [i for _, i in model.trace] != list(range(len(TIMES))):
            return rt.fail("C04:overlap-stuck-after-quiescence",
                           lambda: f"{where}: start() at quiescence from {rs}/{ps} leads to {sim.run_state}/{sim.replication_state}, trace {model.trace}")
        bad = check_stream(mon.log, warm, True)
        if bad:
            return rt.fail(bad + "-overlap", lambda: f"{where}: stream {mon.log}")
    return True


def pick_int(n, lo, hi):
    """concrete value of the symbolic int n in [lo, hi] with O(log) solver decisions (a counting loop `while i < n`
    costs one decision per iteration)"""
    while lo < hi:
        mid = (lo + hi) // 2
        if n <= mid:
            hi = mid
        else:
            lo = mid + 1
    return lo


def seq_run(vs, ps, ws, args, warm):
    """the scenario on the sequentialised simulator; returns (verdict of the oracle, executed order)"""
    from vf import seqthreads
    inst = seqthreads.install()
    sched = inst["sched"]
    sim = make_sim()
    mon = Monitor()
    model = Model(sim, mon)
    rep = SingleReplication("rep", conv(0), conv(warm), conv(END))
    quiet(sim.initialize, model, rep)
    sched.tail()
    for et in ALL_TYPES:
        sim.add_listener(et, mon)
    del sched.order[:]
    results = []
    marks = []
    for c, name in enumerate(SCEN):
        before = _main_counts(mon)
        sched.slice("W", vs[c])
        marks.append((len(model.trace), len(mon.log)))
        sched.set_caller(_caller_prog(sim, name, args[c], results))
        sched.slice("C", ps[c])
        sched.slice("W", ws[c])
        sched.finish_command(stalled=(c < len(STALLS) and STALLS[c] == "1"))
        if len(results) == c + 1 and results[c] == "refused" and _main_counts(mon) != before:
            return rt.fail("C04:overlap-refused-" + name + "-notified", lambda: f"{SCEN} {results}: {before} -> {_main_counts(mon)}"), sched.order
    sched.tail()
    order = list(sched.order)
    if sched.overrun:
        return rt.fail("C04:overlap-no-quiescence-within-step-bound", lambda: f"{SCEN}: {sched.steps} statements"), order
    if sched.worker_died:
        return rt.fail("C04:overlap-run-thread-died", lambda: f"{SCEN}: {sched.worker_died}"), order

    def resume(s):
        out = []
        sched.set_caller(_caller_prog(s, "start", 0, out))
        sched.tail()
        if out and out[0] != "ok":
            raise DSOLError(out[0])

    return oracle(sim, model, mon, results, args, warm, resume, lambda: not sched.worker_gone(), marks), order


def overlap(vs, ps, ws, args, warm):
    return seq_run(vs, ps, ws, args, warm)[0]


# --------------------------------------------------------------------------------------------------
# replay on real threads
# --------------------------------------------------------------------------------------------------

_ORDER_CHILD = r'''
import json, os, sys
sys.path.insert(0, %r)
os.environ["VF_MODE"] = "symbolic"
from harness import c04b
spec = json.loads(sys.argv[1])
ok, order = c04b.seq_run(spec["vs"], spec["ps"], spec["ws"], spec["args"], spec["warm"])
from vf import rt
print("ORDER " + json.dumps({"ok": bool(ok), "fails": [f[0] for f in rt.FAILS], "order": order}))
os._exit(0)
'''


def replay_overlap(vs, ps, ws, args, warm):
    """1. a child process runs the sequentialised scenario concretely and prints the executed order of statements;
    2. this process re-enacts that order on the REAL threaded simulator (both threads gated on line events)."""
    import json
    import os
    import subprocess
    import time as _time
    here = os.path.dirname(os.path.dirname(os.path.abspath(__file__)))
    env = dict(os.environ)
    env["VF_MODE"] = "symbolic"
    spec = {"vs": list(vs), "ps": list(ps), "ws": list(ws), "args": list(args), "warm": warm}
    p = subprocess.run([sys.executable, "-c", _ORDER_CHILD % here, json.dumps(spec)], env=env, capture_output=True, text=True, timeout=300)
    lines = [l for l in p.stdout.splitlines() if l.startswith("ORDER ")]
    if not lines:
        raise RuntimeError("sequentialised child failed: " + (p.stdout + p.stderr)[-400:])
    rec = json.loads(lines[-1][6:])
    order = [tuple(x) for x in rec["order"]]

    import pydsol.core.simulator as simmod
    from vf import seqthreads, simstubs
    S, D, W = simmod.Simulator, simmod.DEVSSimulator, simmod.SimulatorWorkerThread
    codes = {}
    for m in seqthreads.CALLER_METHODS:
        for cls in (S, D):
            if m in cls.__dict__:
                codes[f"{cls.__name__}.{m}"] = cls.__dict__[m].__code__
    codes["DEVSSimulator._run"] = D.__dict__["_run"].__code__
    codes["SimulatorWorkerThread.run"] = W.__dict__["run"].__code__
    gr = seqthreads.GatedReplay(order, codes)
    gr.caller_ident = threading.get_ident()

    class GatedEvent(threading.Event):
        def wait(self, timeout=None):
            if not self.is_set():
                gr.blocked()
            return super().wait(timeout)

    class Shim:
        Event = GatedEvent

        def __getattr__(self, k):
            return getattr(threading, k)

    clock = simstubs.VirtualClock()
    clock.sleep = lambda x, c=clock: (setattr(c, "now", c.now + 0.05), _time.sleep(0.0005))[0]
    saved = (simmod.threading, simmod.time, simmod.sleep)
    simmod.threading, simmod.time, simmod.sleep = Shim(), clock, clock.sleep
    threading.settrace(gr.tracer)
    try:
        sim = make_sim()
        mon = Monitor()
        model = Model(sim, mon)
        rep = SingleReplication("rep", conv(0), conv(warm), conv(END))
        quiet(sim.initialize, model, rep)
        simstubs.quiesce(sim)
        for et in ALL_TYPES:
            sim.add_listener(et, mon)
        results = []
        rmarks = []
        sys.settrace(gr.tracer)
        try:
            for c, name in enumerate(SCEN):
                rmarks.append((len(model.trace), len(mon.log)))
                try:
                    _command_real(sim, name, args[c])
                    results.append("ok")
                except DSOLError:
                    results.append("refused")
                except Exception as e:      # noqa
                    results.append("other:" + type(e).__name__ + ":" + str(e)[:80])
                gr.thread_end("C")
        finally:
            sys.settrace(None)
        # wait for the logged order to be consumed and for quiescence
        t0 = _time.time()
        while _time.time() - t0 < 20 and gr.pos < len(order) and gr.diverged is None:
            w = sim._Simulator__worker
            if w is None or not w.is_alive():
                break
            _time.sleep(0.002)
        followed = gr.pos >= len(order) and gr.diverged is None
        gr.release()
        simstubs.quiesce(sim)
    finally:
        threading.settrace(None)
    if not followed:
        simmod.threading, simmod.time, simmod.sleep = saved
        sys.__stderr__.write(f"C04 part 2: the schedule could not be re-enacted on real threads: order consumed up to {gr.pos} of "
                             f"{len(order)}; {gr.diverged}; the sequentialised run said {rec['fails']}\n")
        return True        # not a reproduction

    def resume(s):
        s.start()
        simstubs.quiesce(s)

    def alive():
        _time.sleep(0.05)
        return any(t.name == "sim" and t.is_alive() for t in threading.enumerate())

    try:
        return oracle(sim, model, mon, results, args, warm, resume, alive, rmarks)
    finally:
        simmod.threading, simmod.time, simmod.sleep = saved


def h_overlap(vs: List[int], ps: List[int], ws: List[int], args: List[int], warm: int) -> bool:
    """
    pre: len(vs) == NC and len(ps) == NC and len(ws) == NC and len(args) == NC
    pre: all(0 <= vs[i] <= (VHI if (i != NC - 2 or VMID == 0) else VMIDHI) for i in range(NC)) and VLO <= vs[NC - 1]
    pre: all(0 <= p <= PMAX for p in ps) and (FIXP < 0 or ps[NC - 1] == FIXP)
    pre: all(0 <= w <= WMAX for w in ws)
    pre: all(w <= WSMALL or w == WMAX for w in ws)
    pre: all((vs[i] == 0 or (VMID == 1 and i == NC - 2)) and ps[i] == 0 and ws[i] == 0 for i in range(NC - NSYM))
    pre: VMID == 0 or NC < 2 or (MIDLO <= vs[NC - 2] <= MIDHI)
    pre: all(0 <= a <= 3 for a in args)
    pre: all((args[i] == 0) if SCEN[i] not in ("runto", "runtoi") else (1 <= args[i] and (FIXARG < 0 or args[i] == FIXARG)) for i in range(NC))
    pre: 0 <= warm <= 2 and (FIXWARM < 0 or warm == FIXWARM)
    post: _
    """
    if rt.MODE == "replay":
        return replay_overlap(vs, ps, ws, args, warm)
    vs = [pick_int(v, 0, max(VHI, VMIDHI if VMID else 0)) for v in vs]
    ps = [pick_int(p, 0, PMAX) for p in ps]
    ws = [pick_int(w, 0, WMAX) for w in ws]
    args = [pick_int(a, 0, 3) for a in args]
    warm = pick_int(warm, 0, 2)
    return overlap(vs, ps, ws, args, warm)
