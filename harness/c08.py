"""C08 - publish/subscribe: a fired event reaches exactly its subscribers, once, in order.

Engine A, real EventProducer/Event/TimedEvent code, public API only.
 h_step    one step from an arbitrary subscription state: the state is built by add_listener
           calls from symbolic lists (with duplicates), then ONE operation (kind fixed per
           condition by VF_OP, arguments symbolic), then a probe fire on every type.
 h_reenter one listener performs a symbolic action from inside notify() (subscribe /
           unsubscribe / remove_all forms / nested fire), snapshot semantics for the outer
           event, current state for the nested one.
 h_payload Event / TimedEvent construction against declared metadata.
"""
from typing import List

from pydsol.core.pubsub import Event, EventError, EventListener, EventProducer, EventType, TimedEvent
from vf import rt

NT = rt.envint("VF_NT", 2)         # event types
NL = rt.envint("VF_NL", 3)         # listeners
MAXS = rt.envint("VF_MAXS", 3)     # subscription calls per type when building the state
OP = rt.envstr("VF_OP", "add")

TYPES = [EventType("VF_T%d" % i) for i in range(3)]
META = EventType("VF_META", {"a": int, "b": str})
META1 = EventType("VF_META1", {"a": int})
META0 = EventType("VF_META0", {})          # declared, but empty: the payload must be the empty dict


class Rec(EventListener):
    def __init__(self, idx, log):
        self.idx = idx
        self.log = log
        self.action = None

    def notify(self, event):
        self.log.append((self.idx, event.event_type.name, event.content,
                         getattr(event, "timestamp", None)))
        if self.action is not None:
            act = self.action
            self.action = None
            act()


def _ref_add(ref, t, l):
    if l not in ref[t]:
        ref[t].append(l)


def _ref_remove(ref, t, l):
    if l in ref[t]:
        ref[t].remove(l)


def _build(subs):
    log = []
    prod = EventProducer()
    ls = [Rec(i, log) for i in range(NL)]
    ref = [[] for _ in range(NT)]
    for t in range(NT):
        for l in subs[t]:
            prod.add_listener(TYPES[t], ls[l])
            _ref_add(ref, t, l)
    return prod, ls, ref, log


def _probe(prod, ls, ref, log, tag):
    """fire every type once and compare deliveries with the reference lists"""
    for t in range(NT):
        del log[:]
        prod.fire(TYPES[t], ("probe", t))
        got = [x[0] for x in log]
        if got != ref[t]:
            return rt.fail("C08:delivery-" + tag, lambda: f"type {t}: delivered to {got}, subscribers {ref[t]}")
        for x in log:
            if x[1] != TYPES[t].name or x[2] != ("probe", t):
                return rt.fail("C08:delivery-content-" + tag, lambda: f"{x}")
    if prod.has_listeners() != any(len(r) > 0 for r in ref):
        return rt.fail("C08:has_listeners-" + tag, lambda: f"has_listeners()={prod.has_listeners()} ref {ref}")
    return True


def _apply(prod, ls, ref, log, op, t, l, ts):
    """one operation on producer and reference; returns False on an immediate violation"""
    if op == "add":
        prod.add_listener(TYPES[t], ls[l])
        _ref_add(ref, t, l)
    elif op == "remove":
        prod.remove_listener(TYPES[t], ls[l])
        _ref_remove(ref, t, l)
    elif op == "rm_all":
        prod.remove_all_listeners()
        for r in ref:
            del r[:]
    elif op == "rm_type":
        prod.remove_all_listeners(TYPES[t])
        del ref[t][:]
    elif op == "rm_listener":
        prod.remove_all_listeners(None, ls[l])
        for tt in range(NT):
            _ref_remove(ref, tt, l)
    elif op == "rm_both":
        prod.remove_all_listeners(TYPES[t], ls[l])
        _ref_remove(ref, t, l)
    elif op in ("fire", "fire_timed"):
        del log[:]
        expect = list(ref[t])
        if op == "fire":
            prod.fire(TYPES[t], ("x", l))
        else:
            prod.fire_timed(ts, TYPES[t], ("x", l))
        got = [x[0] for x in log]
        if got != expect:
            return rt.fail("C08:delivery-" + op, lambda: f"type {t}: delivered to {got}, subscribers {expect}")
        for x in log:
            if x[1] != TYPES[t].name or x[2] != ("x", l) or (op == "fire_timed" and x[3] is not ts):
                return rt.fail("C08:delivery-content-" + op, lambda: f"{x} (timestamp {ts})")
    else:
        raise RuntimeError(op)
    return True


def h_step(s0: List[int], s1: List[int], s2: List[int], t: int, l: int, ts: int) -> bool:
    """
    pre: len(s0) <= MAXS and len(s1) <= (MAXS if NT > 1 else 0) and len(s2) <= (MAXS if NT > 2 else 0)
    pre: all(0 <= x < NL for x in s0) and all(0 <= x < NL for x in s1) and all(0 <= x < NL for x in s2)
    pre: 0 <= t < NT and 0 <= l < NL
    pre: -2 <= ts <= 2
    post: _
    """
    prod, ls, ref, log = _build([s0, s1, s2])
    if not _apply(prod, ls, ref, log, OP, t, l, ts):
        return False
    return _probe(prod, ls, ref, log, "after-" + OP)


ACTIONS = ["add", "remove", "rm_all", "rm_type", "rm_listener", "rm_both", "fire"]
ACT = rt.envstr("VF_ACT", "remove")


def h_reenter(s0: List[int], s1: List[int], who: int, t: int, at: int, al: int) -> bool:
    """
    pre: len(s0) <= MAXS and len(s1) <= MAXS
    pre: all(0 <= x < NL for x in s0) and all(0 <= x < NL for x in s1)
    pre: 0 <= who < NL and t == 0 and 0 <= at < NT and 0 <= al < NL
    pre: len(set(s0)) == len(s0) and len(set(s1)) == len(s1)
    post: _
    """
    prod, ls, ref, log = _build([s0, s1, []])
    snapshot = list(ref[t])
    nested = {}

    def action():
        # executed inside notify() of listener `who` while the outer event is being delivered
        nested["at"] = len(log)
        if ACT == "fire":
            nested["expect"] = list(ref[at])
            prod.fire(TYPES[at], ("nested", al))
            nested["end"] = len(log)
        else:
            _apply(prod, ls, ref, log, ACT, at, al, 0)

    ls[who].action = action
    del log[:]
    prod.fire(TYPES[t], ("outer", 0))
    outer = [x[0] for x in log if x[2] == ("outer", 0)]
    if outer != snapshot:
        return rt.fail("C08:reentrant-outer-delivery-" + ACT,
                       lambda: f"outer event delivered to {outer}, subscribed at the moment of firing {snapshot}")
    if ACT == "fire" and "expect" in nested:
        inner = [x[0] for x in log[nested["at"]:nested["end"]] if x[2] == ("nested", al)]
        if inner != nested["expect"]:
            return rt.fail("C08:reentrant-nested-delivery",
                           lambda: f"nested event delivered to {inner}, subscribers {nested['expect']}")
    ls[who].action = None
    return _probe(prod, ls, ref, log, "after-reentrant-" + ACT)


KEYS = ["a", "b", "c"]
SINGLE = rt.envint("VF_SINGLE", 0)     # 1: metadata {"a": int}, 0: {"a": int, "b": str}
TIMED = rt.envint("VF_TIMED", 0)


def _value(code, iv, sv):
    if code == 0:
        return iv
    if code == 1:
        return sv
    if code == 2:
        return None
    return 1.5


def _make(timed, ts, et, content, check):
    return TimedEvent(ts, et, content, check) if timed else Event(et, content, check)


def h_payload(mask: int, vcode: List[int], iv: int, sv: str, check: bool) -> bool:
    """
    pre: 0 <= mask <= 7
    pre: len(vcode) == 3 and all(0 <= v <= 3 for v in vcode)
    pre: len(sv) <= 1
    post: _
    """
    et = META0 if SINGLE == 2 else (META1 if SINGLE else META)
    decl = {} if SINGLE == 2 else ({"a": int} if SINGLE else {"a": int, "b": str})
    content = {}
    for n in range(3):
        if (mask >> n) & 1:
            content[KEYS[n]] = _value(vcode[n], iv, sv)
    exact = (len(content) == len(decl)) and all(
        (k in content) and content[k] is not None and isinstance(content[k], decl[k]) for k in decl)
    expect_ok = exact or not check
    try:
        ev = _make(TIMED, iv, et, content, check)
    except EventError:
        if expect_ok:
            return rt.fail("C08:valid-event-refused", lambda: f"content {content!r} check={check} timed={TIMED}")
        return True
    if not expect_ok:
        return rt.fail("C08:malformed-event-accepted", lambda: f"content {content!r} check={check} timed={TIMED}")
    if ev.content is not content or ev.event_type is not et:
        return rt.fail("C08:event-fields", lambda: f"{ev}")
    if TIMED and ev.timestamp is not iv:
        return rt.fail("C08:timestamp", lambda: f"the event carries {ev.timestamp!r}, fired with {iv!r}")
    return True


def h_nondict(shape: int, iv: int, sv: str, check: bool, timed: bool, single: int) -> bool:
    """
    pre: 1 <= shape <= 4
    pre: len(sv) <= 1
    pre: 0 <= single <= 2
    post: _
    """
    et = [META, META1, META0][single]
    content = [None, None, [("a", iv)], sv, iv][shape]
    try:
        _make(timed, iv, et, content, check)
    except EventError:
        return True
    return rt.fail("C08:non-dict-payload-accepted", lambda: f"content {content!r} check={check}")


def h_timestamp(tcode: int, iv: int, sv: str, check: bool, typed: bool) -> bool:
    """
    pre: 0 <= tcode <= 3
    pre: len(sv) <= 1
    post: _
    """
    ts = [iv, iv / 2, None, sv][tcode]
    et = META1 if typed else TYPES[0]
    content = {"a": iv} if typed else ("free", iv)
    try:
        ev = TimedEvent(ts, et, content, check)
    except EventError:
        if tcode <= 1:
            return rt.fail("C08:numeric-timestamp-refused", lambda: f"ts={ts!r}")
        return True
    if tcode > 1:
        return rt.fail("C08:non-numeric-timestamp-accepted", lambda: f"ts={ts!r}")
    if ev.timestamp is not ts or ev.content is not content:
        return rt.fail("C08:timestamp", lambda: f"the event carries {ev.timestamp!r}, fired with {ts!r}")
    return True
