"""C07 - end-to-end reproducibility: a run is a function of model, seeds and settings.

Engine A.  The quantities that vary between interpreter processes and that a test can never vary are
explicit symbolic inputs, and the SAME stochastic fan-out model is executed TWICE inside one path
under two independent copies of them:
   * the start value of the SimEvent id counter (unrelated prior activity in the process),
   * the built-in hash() of str (injected into pydsol.core.streams, as in C13),
   * the reading of the wall clock (virtual clock start),
   * where the run is paused (stop() from the handler of event j, then start()).
Model: a generator event fires a model event type to L listeners (subscription order symbolic but equal
in both runs); every listener draws from one shared stream and schedules a follow-up event with the
drawn delay; a SimTally observes the draws; seeds come from SimpleStreamUpdater.update_seeds.
Oracle: executed-event trace, notification stream, draws per listener and all statistics getters are
equal in both runs, and the listeners are notified in subscription order.
Replay: child interpreters with different PYTHONHASHSEED, different amounts of prior SimEvent creation
and different pause points print a digest.
"""
import json
import os
import subprocess
import sys
from typing import List

import pydsol.core.streams as streams_mod
from harness import rngstub
from harness.simmodel import (make_sim, conv, settle, quiet, SingleReplication, RunState, DSOLError, PRIOS)
from pydsol.core.interfaces import ReplicationInterface, SimulatorInterface
from pydsol.core.model import DSOLModel
from pydsol.core.pubsub import EventListener, EventProducer, EventType
from pydsol.core.simevent import SimEvent
from pydsol.core.statistics import SimTally
from pydsol.core.streams import MersenneTwister, SimpleStreamUpdater
from vf import rt

L = rt.envint("VF_L", 2)
FIXOI = rt.envint("VF_ORDER", 0)      # subscription order of the listeners (index into ORDERS), fixed per condition
DBG = rt.envint("VF_DBG", 0)
PAUSEKIND = rt.envint("VF_PAUSEKIND", 0)   # split: run A paused by stop() from a handler (0) or by a bounded run (1)
FIXRNR = rt.envint("VF_RNR", 1)       # replication number handed to the seed updater
VMAX = rt.envint("VF_VMAX", 3)
FAN = EventType("VF_C07_FAN")
DRAW = EventType("VF_C07_DRAW")
ORDERS = [[0, 1, 2], [0, 2, 1], [1, 0, 2], [1, 2, 0], [2, 0, 1], [2, 1, 0]]
GRID = [0.0, 0.4, 0.8]


class Monitor(EventListener):
    def __init__(self):
        self.log = []

    def notify(self, event):
        self.log.append((event.event_type.name, getattr(event, "timestamp", None)))


class ModelEvent(SimEvent):
    """a user-defined event class: its instances must draw their ids from the same global counter as plain events"""


class Worker(EventListener):
    def __init__(self, model, idx):
        self.model, self.idx = model, idx

    def notify(self, event):
        m = self.model
        d = m.stream.next_int(0, 2)
        m.draws.append((self.idx, d))
        m.notified.append(self.idx)
        m.prod.fire(DRAW, d)
        if self.idx % 2 == 1:
            # odd listeners schedule through a SimEvent SUBCLASS: ties with the plain events of the even listeners
            # (same time, same priority) are broken by the ids
            m.simulator.schedule_event(ModelEvent(m.simulator.simulator_time + conv(d), m, "follow", PRIOS[1], who=self.idx))
        else:
            m.simulator.schedule_event_rel(conv(d), m, "follow", PRIOS[1], who=self.idx)


class Inspector(EventListener):
    """subscribed first, unsubscribes itself at its first notification: the others must keep their order"""

    def __init__(self, model):
        self.model = model

    def notify(self, event):
        self.model.notified.append(-1)
        self.model.prod.remove_listener(FAN, self)


class FanModel(DSOLModel):
    def __init__(self, sim, times, order, seed, rnr, pause_at, bound=-1):
        super().__init__(sim)
        self.times, self.order, self.seed, self.rnr, self.pause_at = times, order, seed, rnr, pause_at
        self.bound = bound

    def construct_model(self):
        sim = self.simulator
        self.trace, self.draws, self.notified, self.count = [], [], [], 0
        self.prod = EventProducer()
        self.stream = MersenneTwister(self.seed)
        SimpleStreamUpdater().update_seeds({"arrivals": self.stream}, self.rnr)
        self.tally = SimTally("draws", "draws", sim, producer=self.prod, event_type=DRAW)
        self.workers = [Worker(self, i) for i in range(NW())]
        self.prod.add_listener(FAN, Inspector(self))
        for i in (self.order if NW() <= 3 else list(range(NW()))):
            if i < NW():
                self.prod.add_listener(FAN, self.workers[i])
        for t in self.times:
            sim.schedule_event_abs(conv(t), self, "generate", PRIOS[1])

    def _tick(self, tag):
        self.trace.append((self.simulator.simulator_time, tag))
        self.count += 1
        if self.count == self.pause_at:
            quiet(self.simulator.stop)

    def generate(self):
        self.prod.fire(FAN, None)
        self._tick("gen")

    def follow(self, who):
        self._tick(who)


def NW():
    """number of listeners: L in symbolic runs; the replay children use more (set / address effects need a few objects)"""
    return int(os.environ.get("VF_REPLAY_L", L)) if rt.MODE == "replay" else L


def run_once(times, order, seed, rnr, end, pause_at, counter0, hashvals, clock0, bound=-1):
    """one complete run under one environment; returns the observable outcome"""
    if rt.MODE == "symbolic":
        from vf import simstubs
        simstubs.INSTALLED["clock"].now = 1000.0 + clock0
        SimEvent._SimEvent__event_counter = counter0

        class _H:
            def __call__(self, s):
                return hashvals[0] if s == "arrivals" else hashvals[1]
        streams_mod.__dict__["hash"] = _H()
    try:
        sim = make_sim()
        model = FanModel(sim, times, order, seed, rnr, pause_at)
        rep = SingleReplication("rep", conv(0), conv(0), conv(end))
        quiet(sim.initialize, model, rep)
        mon = Monitor()
        for et in (ReplicationInterface.START_REPLICATION_EVENT, ReplicationInterface.END_REPLICATION_EVENT,
                   ReplicationInterface.WARMUP_EVENT, SimulatorInterface.TIME_CHANGED_EVENT):
            sim.add_listener(et, mon)
        if bound >= 0:
            try:
                quiet(sim.run_up_to, conv(bound))       # pause at a time instead of at an event
            except DSOLError:
                pass
            settle(sim)
        guard = 0
        while sim.run_state != RunState.ENDED and guard < 4:
            guard += 1
            quiet(sim.start)
            settle(sim)
        t = model.tally
        if os.environ.get("VF_PAUSEKIND", "0") == "1":
            # a pause at a TIME (bounded run) moves the clock to the bound by design (C03), which shows in which
            # TIME_CHANGED notifications are needed afterwards; the property quantifies over pauses at events, so
            # for this pause kind the time-changed entries are left out of the comparison
            mon.log = [x for x in mon.log if x[0] != "TIME_CHANGED_EVENT"]
        return {"trace": model.trace, "notifications": mon.log, "draws": model.draws, "notified": model.notified,
                "stream_seed": model.stream.seed(),
                "stats": [t.n(), t.sum(), t.min(), t.max(), t.mean(), t.variance(), t.variance(False)],
                "clock": sim.simulator_time, "ended": sim.run_state == RunState.ENDED}
    finally:
        streams_mod.__dict__.pop("hash", None)


def _eq(a, b):
    if isinstance(a, (list, tuple)):
        return len(a) == len(b) and all(_eq(x, y) for x, y in zip(a, b))
    return (a != a and b != b) or a == b


_CHILD = r'''
import json, sys, os
sys.path.insert(0, %r)
os.environ["VF_MODE"] = "replay"
from pydsol.core.simevent import SimEvent
class _T:
    def m(self): pass
spec = json.loads(sys.argv[1])
from harness import c07
for k in range(spec["prior"]):
    # unrelated earlier activity of the process: plain events and events of the model's own event class
    (c07.ModelEvent if k %% 3 == 0 else SimEvent)(0.0, _T(), "m")
out = c07.run_once(spec["times"], spec["order"], spec["seed"], spec["rnr"], spec["end"], spec["pause_at"], 0, [0, 0], 0, spec.get("bound", -1))
print("DIGEST " + json.dumps(out, default=lambda o: float(o).hex() if isinstance(o, float) else repr(o)))
os._exit(0)
'''


def _child(spec, hashseed):
    env = dict(os.environ)
    env["PYTHONHASHSEED"] = str(hashseed)
    env["VF_MODE"] = "replay"
    env["VF_REPLAY_L"] = "6"
    here = os.path.dirname(os.path.dirname(os.path.abspath(__file__)))
    p = subprocess.run([sys.executable, "-c", _CHILD % here, json.dumps(spec)], env=env, capture_output=True, text=True, timeout=120)
    lines = [l for l in p.stdout.splitlines() if l.startswith("DIGEST ")]
    return lines[-1] if lines else "ERROR " + (p.stdout + p.stderr)[-300:]


def _pick(i):
    for k in range(len(GRID)):
        if i == k:
            return GRID[k]
    return GRID[0]


def h_twin(times: List[int], oi: int, seed: int, rnr: int, end: int, pa: int, pb: int, ca: int, cb: int,
           ha: List[int], hb: List[int], ka: int, kb: int, ui: List[int], ba: int = -1) -> bool:
    """
    pre: len(times) == 2 and times[0] == 0 and 0 <= times[1] <= VMAX
    pre: oi == FIXOI
    pre: (seed == 3 or seed == 0) and rnr == FIXRNR
    pre: end == VMAX
    pre: 0 <= pa <= 3 and pb == 0
    pre: -1 <= ba < end and (ba < 0 or pa == 0)
    pre: (PAUSEKIND == 0 and ba < 0) or (PAUSEKIND == 1 and pa == 0)
    pre: 0 <= ca <= 1000000 and 0 <= cb <= 1000000
    pre: len(ha) == 2 and len(hb) == 2
    pre: 0 <= ka <= 5 and 0 <= kb <= 5
    pre: len(ui) == 2 and all(0 <= i <= 2 for i in ui)
    pre: DBG == 0 or (pa == 0 and times[1] == 1)
    pre: ka == 0 and kb == 0
    post: _
    """
    order = ORDERS[oi]
    if rt.MODE == "replay":
        outs = set()
        for prior, hs, pause, bnd in ((0, 1, pa, -1), (37, 2, pb, -1), (5, 99, 0, ba), (1234, 7, 0, -1), (20000, 3, 0, -1)):
            outs.add(_child({"times": times, "order": order, "seed": seed, "rnr": rnr, "end": end, "pause_at": pause, "prior": prior,
                             "bound": bnd}, hs))
        if len(outs) != 1:
            return rt.fail("C07:runs-differ-between-processes", lambda: f"{len(outs)} different digests: " + " | ".join(sorted(outs))[:900])
        return True
    us = [_pick(i) for i in ui]
    rngstub.install(us)
    # the wall clock differs between the two runs by concrete amounts (a symbolic clock makes every polling
    # loop of the simulator a solver problem without adding anything: any dependence on the clock shows up
    # as a difference between the twins)
    a = run_once(times, order, seed, rnr, end, pa, ca, ha, 0.0, ba)
    rngstub.install(us)
    b = run_once(times, order, seed, rnr, end, pb, cb, hb, 4321.75)
    for key in ("trace", "notifications", "draws", "stats", "clock", "ended", "stream_seed"):
        if not _eq(a[key], b[key]):
            return rt.fail("C07:twin-runs-differ-in-" + key, lambda: f"{a[key]} vs {b[key]}")
    exp = [i for i in order if i < L]
    seen = [w for w in a["notified"] if w >= 0]
    if a["notified"].count(-1) > 1:
        return rt.fail("C07:unsubscribed-listener-notified-again", lambda: f"{a['notified']}")
    for n, who in enumerate(seen):
        if who != exp[n % len(exp)]:
            return rt.fail("C07:listeners-not-notified-in-subscription-order", lambda: f"{a['notified']} subscription order {exp}")
    if not a["ended"]:
        return rt.fail("C07:run-does-not-end", "")
    return True
