"""C09 - Tally and Counter report the textbook statistics.  Replay functions (real code,
exact rational oracle) and the Engine-A harness of the event-publishing variants."""
import math
from fractions import Fraction
from typing import List

from pydsol.core.pubsub import EventListener
from pydsol.core.statistics import Counter, EventBasedCounter, EventBasedTally, Tally
from vf import rt

TOL = 1e-7


def close(a, b):
    if isinstance(a, tuple):
        return all(close(x, y) for x, y in zip(a, b))
    if a is None or b is None:
        return a is b
    if a != a or b != b:
        return a != a and b != b
    return abs(a - b) <= TOL * max(1.0, abs(a), abs(b))


def exact(data, getter, arg):
    """documented definition evaluated with exact rationals (floats only for roots); NaN when
    undefined (too few observations or zero variance)"""
    xs = [Fraction(x) for x in data]
    n = len(xs)
    nan = math.nan
    if getter == "n":
        return n
    if n == 0:
        if getter == "sum":
            return 0.0
        if getter == "confidence_interval":
            return (nan, nan)
        return nan
    mu = sum(xs) / n
    c2 = sum((x - mu) ** 2 for x in xs)
    c3 = sum((x - mu) ** 3 for x in xs)
    c4 = sum((x - mu) ** 4 for x in xs)
    if getter == "sum":
        return float(sum(xs))
    if getter == "min":
        return float(min(xs))
    if getter == "max":
        return float(max(xs))
    if getter == "mean":
        return float(mu)
    biased = arg
    if getter in ("variance", "stdev"):
        if biased:
            v = c2 / n
        elif n > 1:
            v = c2 / (n - 1)
        else:
            return nan
        return float(v) if getter == "variance" else math.sqrt(v)
    if getter == "skewness":
        if n < 2 or (not biased and n < 3) or c2 == 0:
            return nan
        g = float(c3 / n) / float(c2 / n) ** 1.5
        return g if biased else g * math.sqrt(n * (n - 1)) / (n - 2)
    if getter in ("kurtosis", "excess_kurtosis"):
        if n < 3 or (not biased and n < 4) or c2 == 0:
            return nan
        kb = float((c4 / n) / (c2 / n) ** 2)
        if getter == "kurtosis":
            if biased:
                return kb
            s2 = c2 / (n - 1)
            return float(c4 / (n - 1) / s2 / s2)
        if biased:
            return kb - 3.0
        return (n - 1) / ((n - 2) * (n - 3)) * ((n + 1) * (kb - 3.0) + 6)
    if getter == "confidence_interval":
        alpha = arg
        if n < 2:
            return (nan, nan)
        from statistics import NormalDist
        s2 = float(c2 / (n - 1))
        if alpha == 0.0:
            return (float(min(xs)), float(max(xs)))
        z = NormalDist(0.0, 1.0).inv_cdf(1.0 - alpha / 2.0)
        h = z * math.sqrt(s2 / n)
        return (max(float(min(xs)), float(mu) - h), min(float(max(xs)), float(mu) + h))
    raise ValueError(getter)


GETTERS = [("n", None), ("sum", None), ("min", None), ("max", None), ("mean", None),
           ("variance", True), ("variance", False), ("stdev", True), ("stdev", False),
           ("skewness", True), ("skewness", False), ("kurtosis", True), ("kurtosis", False),
           ("excess_kurtosis", True), ("excess_kurtosis", False),
           ("confidence_interval", 0.05), ("confidence_interval", 1.0), ("confidence_interval", 0.0)]


def r_tally(data, extra=None) -> bool:
    """replay: feed the real Tally and compare every getter with the exact definition"""
    t = Tally("replay")
    ok = True
    for k, x in enumerate(data):
        t.register(x)
        for g, a in GETTERS + ([tuple(extra)] if extra else []):
            try:
                got = getattr(t, g)() if a is None else getattr(t, g)(a)
            except Exception as e:      # noqa
                ok = rt.fail(f"C09:{g}-raised-{type(e).__name__}", f"after {data[:k + 1]}: {g}({a}) raised {e!r}") and ok
                continue
            want = exact(data[:k + 1], g, a)
            if not close(got, want):
                ok = rt.fail(f"C09:{g}-value", f"after {data[:k + 1]}: {g}({a}) = {got!r}, definition gives {want!r}") and ok
    return ok


def r_reject(data, bad) -> bool:
    """replay: an invalid observation must be rejected and change nothing"""
    t = Tally("replay")
    for x in data:
        t.register(x)
    before = [(g, a, getattr(t, g)() if a is None else getattr(t, g)(a)) for g, a in GETTERS[:9]]
    import decimal
    v = {"nan": math.nan, "str": "abc", "none": None, "decimal": decimal.Decimal("1.5")}[bad]
    try:
        t.register(v)
        return rt.fail("C09:invalid-observation-accepted", f"{bad} after {data}")
    except (TypeError, ValueError):
        pass
    for g, a, old in before:
        new = getattr(t, g)() if a is None else getattr(t, g)(a)
        if not close(old, new):
            return rt.fail("C09:rejected-observation-changed-" + g, f"{bad} after {data}: {old} -> {new}")
    return True


def r_counter(values) -> bool:
    c = Counter("replay")
    for v in values:
        c.register(v)
    if c.count() != sum(values) or c.n() != len(values):
        return rt.fail("C09:counter", f"{values}: count {c.count()} n {c.n()}")
    return True


# ---------------------------------------------------------------- Engine A: event-publishing variants
GRID = [0.0, 1.5, 1.5, -2.0, 1e6]
K = rt.envint("VF_K", 3)


class Sub(EventListener):
    def __init__(self):
        self.last = {}

    def notify(self, event):
        self.last[event.event_type.name] = event.content


PUBLISHED = {"N_EVENT": ("n", None), "MIN_EVENT": ("min", None), "MAX_EVENT": ("max", None),
             "SUM_EVENT": ("sum", None), "MEAN_EVENT": ("mean", None),
             "POPULATION_VARIANCE_EVENT": ("variance", True), "SAMPLE_VARIANCE_EVENT": ("variance", False),
             "POPULATION_STDEV_EVENT": ("stdev", True), "SAMPLE_STDEV_EVENT": ("stdev", False),
             "POPULATION_SKEWNESS_EVENT": ("skewness", True), "SAMPLE_SKEWNESS_EVENT": ("skewness", False),
             "POPULATION_KURTOSIS_EVENT": ("kurtosis", True), "SAMPLE_KURTOSIS_EVENT": ("kurtosis", False),
             "POPULATION_EXCESS_K_EVENT": ("excess_kurtosis", True),
             "SAMPLE_EXCESS_K_EVENT": ("excess_kurtosis", False)}


def _same(a, b):
    return (a != a and b != b) or a == b


def h_eb_tally(idx: List[int], reinit: int) -> bool:
    """
    pre: len(idx) == K
    pre: all(0 <= i < 5 for i in idx)
    pre: -1 <= reinit < K
    post: _
    """
    t = EventBasedTally("eb")
    sub = Sub()
    import pydsol.core.statistics as st
    types = {name: getattr(st.StatEvents, name) for name in dir(st.StatEvents) if name.endswith("_EVENT")}
    for name, et in types.items():
        t.add_listener(et, sub)
    data = []
    for k in range(K):
        if k == reinit:
            t.initialize()
            data = []
        x = GRID[idx[k]]
        data.append(x)
        sub.last = {}
        try:
            t.register(x)
        except Exception as e:      # noqa
            return rt.fail("C09:event-tally-register-raised-" + type(e).__name__, lambda: f"data {data}: {e!r}")
        for name, (g, a) in PUBLISHED.items():
            if name not in sub.last:
                continue
            got = getattr(t, g)() if a is None else getattr(t, g)(a)
            if not _same(sub.last[name], got):
                return rt.fail("C09:published-value-differs-from-getter", lambda: f"{name}: published {sub.last[name]} getter {got} data {data}")
        if t.n() != len(data):
            return rt.fail("C09:event-tally-n", lambda: f"{t.n()} != {len(data)}")
    return True


def h_counter(vals: List[int], reinit: int) -> bool:
    """
    pre: len(vals) == K
    pre: -1 <= reinit < K
    post: _
    """
    for cls in (Counter, EventBasedCounter):
        c = cls("c")
        total, n = 0, 0
        for k in range(K):
            if k == reinit:
                c.initialize()
                total, n = 0, 0
            c.register(vals[k])
            total += vals[k]
            n += 1
            if c.count() != total or c.n() != n:
                return rt.fail("C09:counter", lambda: f"{vals}: count {c.count()} n {c.n()}")
    return True


# ---------------------------------------------------------------------------------------------------------------
# histories with queries in between: the reported values are a function of the observations since the last
# initialisation ONLY (no state survives a query or an initialisation), and all-equal data of any length keeps
# variance exactly 0 in IEEE arithmetic (so the "undefined -> NaN" rule applies).  Observations come from a grid of
# doubles that are NOT exactly representable sums (0.1, 0.7, 1.1, 3.3, 1e9+0.1) through symbolic indices; the
# operation kinds, the grid indices and the number of repetitions are symbolic.
# ---------------------------------------------------------------------------------------------------------------
HGRID = [0.1, 0.7, 1.1, 3.3, 1000000000.1]
HL = rt.envint("VF_HL", 5)
HEB = rt.envint("VF_EB", 0)
NEQ = rt.envint("VF_NEQ", 16)
QUERY = [("confidence_interval", 0.05), ("n", None), ("sum", None), ("min", None), ("max", None), ("mean", None), ("variance", True), ("variance", False),
         ("stdev", False), ("skewness", True), ("kurtosis", False), ("excess_kurtosis", True),
         ("confidence_interval", 0.5), ("confidence_interval", 0.05)]     # first and last query alike: a one-entry cache shows


def _ask(t):
    out = []
    for g, a in QUERY:
        try:
            out.append(getattr(t, g)() if a is None else getattr(t, g)(a))
        except Exception as e:      # noqa
            out.append("raised " + type(e).__name__)
    return out


def _flat(v):
    return list(v) if isinstance(v, tuple) else [v]


def _same_list(a, b):
    fa = [x for v in a for x in _flat(v)]
    fb = [x for v in b for x in _flat(v)]
    return len(fa) == len(fb) and all(_same(x, y) for x, y in zip(fa, fb))


def h_history(kinds: List[int], vi: List[int], eb: bool) -> bool:
    """
    pre: len(kinds) == HL and len(vi) == HL
    pre: all(0 <= k <= 2 for k in kinds)
    pre: all(v == 0 for v in vi)
    pre: eb == (HEB == 1)
    post: _
    """
    # 0 register(grid value)   1 initialize()   2 query every getter
    # (the observation values are fixed per position: hidden state shows for any values; the operation kinds are symbolic)
    t = EventBasedTally("h") if eb else Tally("h")
    data = []
    for n in range(HL):
        k = kinds[n]
        if k == 0:
            x = HGRID[(n * 2) % 5]          # concrete double (a symbolic index would make it a symbolic real)
            t.register(x)
            data.append(x)
        elif k == 1:
            t.initialize()
            data = []
        else:
            _ask(t)
    got = _ask(t)
    fresh = EventBasedTally("f") if eb else Tally("f")     # the same observations on a brand-new object, never queried
    for x in data:
        fresh.register(x)
    want = _ask(fresh)
    if not _same_list(got, want):
        return rt.fail("C09:reported-values-depend-on-earlier-history",
                       lambda: f"ops {kinds} grid indices {vi}: after the history {got}; a new tally fed the observations since the "
                               f"last initialisation {data} reports {want}")
    for v in got:
        if isinstance(v, str):
            return rt.fail("C09:query-" + v.replace(" ", "-"), lambda: f"ops {kinds} {vi}")
    return True


def h_equal(vi: int, n: int, eb: bool) -> bool:
    """
    pre: 0 <= vi < 5
    pre: 1 <= n <= NEQ
    post: _
    """
    t = EventBasedTally("e") if eb else Tally("e")
    x = HGRID[0]
    for k in range(5):                      # explicit fork: x is a CONCRETE double on every path (IEEE arithmetic)
        if vi == k:
            x = HGRID[k]
    i = 0
    while i < n:
        t.register(x)
        i += 1
    # "to floating-point accuracy": the values need not be exact, but the statistics that are UNDEFINED for zero
    # variance must be reported as NaN, whatever rounding noise the accumulation produces
    if abs(t.variance(True)) > 1e-12 * x * x:
        return rt.fail("C09:all-equal-data-nonzero-variance", lambda: f"{n} x {x!r}: variance {t.variance(True)!r}")
    for g in ("skewness", "kurtosis", "excess_kurtosis"):
        for b in (True, False):
            v = getattr(t, g)(b)
            if v == v:
                return rt.fail("C09:all-equal-data-" + g + "-not-NaN", lambda: f"{n} x {x!r}: {g}({b}) = {v!r}")
    if not close(t.mean(), x) or t.min() != x or t.max() != x:
        return rt.fail("C09:all-equal-data-mean-min-max", lambda: f"{n} x {x!r}: mean {t.mean()!r} min {t.min()!r} max {t.max()!r}")
    if n >= 2:
        lo, hi = t.confidence_interval(0.05)
        if not (lo <= hi and close(lo, x) and close(hi, x)):
            return rt.fail("C09:all-equal-data-confidence-interval", lambda: f"{n} x {x!r}: ({lo!r}, {hi!r})")
    return True
