"""C10 - weighted and time-weighted tallies.  Replay functions (real code, exact rational oracle)."""
import math
from fractions import Fraction

from pydsol.core.statistics import TimestampWeightedTally, WeightedTally
from vf import rt

TOL = 1e-7


def close(a, b):
    if a != a or b != b:
        return a != a and b != b
    return abs(a - b) <= TOL * max(1.0, abs(a), abs(b))


def exact_weighted(obs):
    """definitions over the positively weighted observations; None = unconstrained (0/0)"""
    n = len(obs)
    pos = [(Fraction(w), Fraction(x)) for w, x in obs if w > 0]
    out = {"n": n}
    if n == 0:
        return dict(out, min=math.nan, max=math.nan, weighted_sum=0.0, weighted_mean=math.nan,
                    var_b=math.nan, var_u=math.nan, sd_b=math.nan, sd_u=math.nan)
    out["min"] = float(min(x for _, x in obs))
    out["max"] = float(max(x for _, x in obs))
    W = sum(w for w, _ in pos)
    A = sum(w * x for w, x in pos)
    out["weighted_sum"] = float(A)
    if W == 0:
        return dict(out, weighted_mean=None, var_b=None, var_u=None, sd_b=None, sd_u=None)
    mu = A / W
    vb = sum(w * (x - mu) ** 2 for w, x in pos) / W
    m = len(pos)
    out["weighted_mean"] = float(mu)
    out["var_b"] = float(vb)
    out["sd_b"] = math.sqrt(vb)
    out["var_u"] = float(vb * m / (m - 1)) if m > 1 else math.nan
    out["sd_u"] = math.sqrt(vb * m / (m - 1)) if m > 1 else math.nan
    return out


def observe(t):
    return {"n": t.n(), "min": t.min(), "max": t.max(), "weighted_sum": t.weighted_sum(),
            "weighted_mean": t.weighted_mean(), "var_b": t.weighted_variance(), "var_u": t.weighted_variance(False),
            "sd_b": t.weighted_stdev(), "sd_u": t.weighted_stdev(False)}


def _compare(got, want, where, prefix):
    for k, w in want.items():
        if w is None:
            continue           # undefined (0/0): any value or NaN, but the call must not raise
        if k == "n":
            if got[k] != w:
                return rt.fail(f"{prefix}:{k}-value", f"{where}: {k} = {got[k]}, definition gives {w}")
        elif not close(got[k], w):
            return rt.fail(f"{prefix}:{k}-value", f"{where}: {k} = {got[k]!r}, definition gives {w!r}")
    return True


def r_weighted(obs) -> bool:
    t = WeightedTally("replay")
    for k in range(len(obs) + 1):
        if k > 0:
            w, x = obs[k - 1]
            t.register(w, x)
        try:
            got = observe(t)
        except Exception as e:      # noqa
            return rt.fail(f"C10:getter-raised-{type(e).__name__}", f"after {obs[:k]}: {e!r}")
        if not _compare(got, exact_weighted(obs[:k]), f"after {obs[:k]}", "C10"):
            return False
    return True


def r_weighted_reject(obs, bad) -> bool:
    t = WeightedTally("replay")
    for w, x in obs:
        t.register(w, x)
    before = observe(t)
    w, x = {"negw": (-1.0, 2.0), "nanw": (math.nan, 2.0), "nanx": (1.0, math.nan), "strw": ("a", 1.0),
            "nonex": (1.0, None)}[bad]
    try:
        t.register(w, x)
        return rt.fail("C10:invalid-observation-accepted", f"{bad} after {obs}")
    except (TypeError, ValueError):
        pass
    after = observe(t)
    for k in before:
        if not (close(before[k], after[k]) if k != "n" else before[k] == after[k]):
            return rt.fail("C10:rejected-observation-changed-" + k, f"{bad} after {obs}: {before[k]} -> {after[k]}")
    return True


def exact_timestamp(seq, T, after):
    """integral of the piecewise-constant signal between the first time and T"""
    if not seq:
        return None
    pts = [(Fraction(t), Fraction(v)) for t, v in seq]
    t0 = pts[0][0]
    integral = Fraction(0)
    for (ta, va), (tb, _) in zip(pts, pts[1:]):
        integral += va * (tb - ta)
    integral += pts[-1][1] * (Fraction(T) - pts[-1][0])
    span = Fraction(T) - t0
    return float(integral), float(span)


def r_timestamp(seq, T, after) -> bool:
    """seq: [(t, v)] non-decreasing times; closed at T >= last time; `after`: [(t, v)] registered after closing"""
    t = TimestampWeightedTally("replay")
    for ts, v in seq:
        t.register(ts, v)
    try:
        t.end_observations(T)
    except Exception as e:      # noqa
        return rt.fail(f"C10:end_observations-raised-{type(e).__name__}", f"{seq} T={T}: {e!r}")
    ex = exact_timestamp(seq, T, after)
    try:
        got_sum, got_mean = t.weighted_sum(), t.weighted_mean()
        t.weighted_variance(), t.weighted_variance(False), t.weighted_stdev(), t.weighted_stdev(False)
    except Exception as e:      # noqa
        return rt.fail(f"C10:timestamp-getter-raised-{type(e).__name__}", f"{seq} T={T}: {e!r}")
    if t.isactive():
        return rt.fail("C10:still-active-after-closing", f"{seq} T={T}")
    if ex is not None:
        integral, span = ex
        if not close(got_sum, integral):
            return rt.fail("C10:time-integral", f"{seq} T={T}: weighted_sum {got_sum} integral {integral}")
        if not close(t._sum_of_weights if hasattr(t, "_sum_of_weights") else span, span):
            return rt.fail("C10:total-weight", f"{seq} T={T}: total weight {t._sum_of_weights} span {span}")
        if span > 0 and not close(got_mean, integral / span):
            return rt.fail("C10:time-average", f"{seq} T={T}: weighted_mean {got_mean} time average {integral / span}")
    snapshot = (t.n(), t.weighted_sum(), t.weighted_mean(), t.weighted_variance())
    for ts, v in after:
        try:
            t.register(ts, v)
        except ValueError:
            pass
    now = (t.n(), t.weighted_sum(), t.weighted_mean(), t.weighted_variance())
    if not all(close(a, b) for a, b in zip(snapshot, now)):
        return rt.fail("C10:observation-after-closing-not-ignored", f"{seq} T={T} after {after}: {snapshot} -> {now}")
    t.initialize()
    if t.n() != 0 or not t.isactive() or t.weighted_sum() != 0.0 or t.weighted_mean() == t.weighted_mean():
        return rt.fail("C10:initialize-does-not-forget", f"{seq}")
    return True


def r_timestamp_reject(seq, early) -> bool:
    t = TimestampWeightedTally("replay")
    for ts, v in seq:
        t.register(ts, v)
    before = (t.n(), t.weighted_sum(), t.weighted_mean(), t.last_value())
    try:
        t.register(early, 1.0)
        return rt.fail("C10:earlier-timestamp-accepted", f"{seq} then t={early}")
    except ValueError:
        pass
    after = (t.n(), t.weighted_sum(), t.weighted_mean(), t.last_value())
    if not all(close(a, b) for a, b in zip(before, after)):
        return rt.fail("C10:rejected-timestamp-changed-state", f"{seq} then t={early}: {before} -> {after}")
    return True
