"""C11 - simulation statistics honour warm-up and replication end; publish true values.

Engine A + inline worker.  K observation events at symbolic (time, priority in {MIN, NORMAL}),
symbolic warm-up time and replication end, an optional pause (stop() from the handler of event j, or
a bounded run run_up_to(b) first, then start()); observation VALUES are concrete per slot (the property quantifies over schedules).
At the end every simulation statistic must report what the ordinary statistic reports when fed
exactly the observations made at or after the warm-up time, in execution order; the persistent one
is closed at the replication end; the model returns the statistics under their keys; every value a
statistic publishes equals its getter at that moment.
"""
from typing import List

from harness.simmodel import (make_sim, conv, settle, quiet, SingleReplication, RunState, DSOLError, PRIOS)
from pydsol.core.interfaces import StatEvents
from pydsol.core.model import DSOLModel
from pydsol.core.pubsub import EventListener, EventProducer, EventType
from pydsol.core.statistics import (Counter, SimCounter, SimPersistent, SimTally, SimWeightedTally, Tally,
                                    TimestampWeightedTally, WeightedTally)
from vf import rt

K = rt.envint("VF_K", 3)
VMAX = rt.envint("VF_VMAX", 4)
KIND = rt.envstr("VF_STAT", "tally")      # counter | tally | weighted | persistent
PAUSEKIND = rt.envint("VF_PAUSEKIND", 0)  # split: 0 pause by stop() from a handler (or none), 1 pause by a bounded run (or none)
OBS = EventType("VF_C11_OBS")
IVAL = [3, -1, 4, 2, 7]
FVAL = [1.5, 1.5, -2.0, 0.25, 8.0]
PVAL = [1.5, -2.0, 1.5, 0.25, 8.0]      # persistent: neighbouring slots differ (several changes at one instant must show)
WVAL = [(2.0, 1.5), (0.0, 9.0), (0.5, -2.0), (1.0, 1.5), (3.0, 0.0)]

GETTERS = {
    "counter": [("COUNT_EVENT", lambda s: s.count()), ("N_EVENT", lambda s: s.n())],
    "tally": [("N_EVENT", lambda s: s.n()), ("MIN_EVENT", lambda s: s.min()), ("MAX_EVENT", lambda s: s.max()),
              ("SUM_EVENT", lambda s: s.sum()), ("MEAN_EVENT", lambda s: s.mean()),
              ("POPULATION_VARIANCE_EVENT", lambda s: s.variance()), ("SAMPLE_VARIANCE_EVENT", lambda s: s.variance(False)),
              ("POPULATION_STDEV_EVENT", lambda s: s.stdev()), ("SAMPLE_STDEV_EVENT", lambda s: s.stdev(False)),
              ("POPULATION_SKEWNESS_EVENT", lambda s: s.skewness()), ("SAMPLE_SKEWNESS_EVENT", lambda s: s.skewness(False)),
              ("POPULATION_KURTOSIS_EVENT", lambda s: s.kurtosis()), ("SAMPLE_KURTOSIS_EVENT", lambda s: s.kurtosis(False)),
              ("POPULATION_EXCESS_K_EVENT", lambda s: s.excess_kurtosis()), ("SAMPLE_EXCESS_K_EVENT", lambda s: s.excess_kurtosis(False))],
    "weighted": [("N_EVENT", lambda s: s.n()), ("MIN_EVENT", lambda s: s.min()), ("MAX_EVENT", lambda s: s.max()),
                 ("WEIGHTED_SUM_EVENT", lambda s: s.weighted_sum()), ("WEIGHTED_MEAN_EVENT", lambda s: s.weighted_mean()),
                 ("WEIGHTED_POPULATION_VARIANCE_EVENT", lambda s: s.weighted_variance()),
                 ("WEIGHTED_SAMPLE_VARIANCE_EVENT", lambda s: s.weighted_variance(False)),
                 ("WEIGHTED_POPULATION_STDEV_EVENT", lambda s: s.weighted_stdev()),
                 ("WEIGHTED_SAMPLE_STDEV_EVENT", lambda s: s.weighted_stdev(False))],
}
GETTERS["persistent"] = GETTERS["weighted"]


def _same(a, b):
    return (a != a and b != b) or a == b


class Sub(EventListener):
    """subscriber of a statistic: checks every published value against the getter at that moment"""

    def __init__(self, stat):
        self.stat = stat
        self.bad = None
        self.seen = 0

    def notify(self, event):
        name = event.event_type.name
        for n, g in GETTERS[KIND]:
            if n == name:
                self.seen += 1
                v = g(self.stat)
                if not _same(event.content, v) and self.bad is None:
                    self.bad = (name, event.content, v)


class ObsModel(DSOLModel):
    def __init__(self, sim, times, prios, pause_at):
        super().__init__(sim)
        self.times, self.prios, self.pause_at = times, prios, pause_at
        self.trace = []
        self.count = 0

    def construct_model(self):
        sim = self.simulator
        self.prod = EventProducer()
        cls = {"counter": SimCounter, "tally": SimTally, "weighted": SimWeightedTally, "persistent": SimPersistent}[KIND]
        self.stat = cls("key", "statistic", sim, producer=self.prod, event_type=OBS)
        self.sub = Sub(self.stat)
        for name in dir(StatEvents):
            if name.endswith("_EVENT") and "DATA" not in name:
                self.stat.add_listener(getattr(StatEvents, name), self.sub)
        for i in range(K):
            sim.schedule_event_abs(conv(self.times[i]), self, "observe", PRIOS[self.prios[i]], i=i)

    def observe(self, i):
        self.trace.append((self.simulator.simulator_time, i))
        self.count += 1
        val = {"counter": IVAL[i], "tally": FVAL[i], "weighted": WVAL[i], "persistent": PVAL[i]}[KIND]
        self.prod.fire(OBS, val)
        if self.count == self.pause_at:
            quiet(self.simulator.stop)


def schedule(times, prios, warm, end, pause_at, bound=-1):
    sim = make_sim()
    model = ObsModel(sim, times, prios, pause_at)
    rep = SingleReplication("rep", conv(0), conv(warm), conv(end))
    quiet(sim.initialize, model, rep)
    if bound >= 0:
        # the run is optionally interrupted by a bounded run first (a pause at a time, not at an event)
        try:
            quiet(sim.run_up_to, conv(bound))
        except DSOLError:
            pass
        settle(sim)
    guard = 0
    while sim.run_state != RunState.ENDED and guard < 4:
        guard += 1
        try:
            quiet(sim.start)
        except DSOLError:
            return rt.fail("C11:start-refused", lambda: f"{sim.run_state}")
        settle(sim)
    if sim.run_state != RunState.ENDED:
        return rt.fail("C11:run-does-not-end", lambda: f"{sim.run_state}")
    if model.get_output_statistic("key") is not model.stat:
        return rt.fail("C11:statistic-not-retrievable-under-its-key", "get_output_statistic('key')")
    if model.sub.bad is not None:
        return rt.fail("C11:published-value-differs-from-getter", lambda: f"{model.sub.bad} trace {model.trace}")
    # expected: the ordinary statistic fed the observations executed at or after the warm-up time, in execution order
    W, E = conv(warm), conv(end)
    kept = [(t, i) for t, i in model.trace if t >= W]
    if len(model.trace) != len([t for t in times if conv(t) <= E]):
        return rt.fail("C11:observation-events-lost", lambda: f"trace {model.trace} times {times} end {end}")
    stat = model.stat
    if KIND == "counter":
        ref = Counter("ref")
        for t, i in kept:
            ref.register(IVAL[i])
        pairs = [(stat.count(), ref.count()), (stat.n(), ref.n())]
    elif KIND == "tally":
        ref = Tally("ref")
        for t, i in kept:
            ref.register(FVAL[i])
        pairs = [(g(stat), g(ref)) for _, g in GETTERS["tally"]]
    elif KIND == "weighted":
        ref = WeightedTally("ref")
        for t, i in kept:
            ref.register(*WVAL[i])
        pairs = [(g(stat), g(ref)) for _, g in GETTERS["weighted"]]
    else:
        ref = TimestampWeightedTally("ref")
        for t, i in kept:
            ref.register(float(t), PVAL[i])
        ref.end_observations(float(E))
        pairs = [(g(stat), g(ref)) for _, g in GETTERS["weighted"]] + [(stat.isactive(), False), (stat.last_value(), ref.last_value())]
        # independent of the library class: the time average of the piecewise-constant signal, integrated by hand
        # (when the signal changes several times at one instant the LAST value holds afterwards); times are small
        # multiples of 1/2 and the values short binary fractions, so the arithmetic below is exact
        if kept:
            ts = [float(t) for t, _ in kept] + [float(E)]
            integral = 0.0
            for k, (t, i) in enumerate(kept):
                integral += PVAL[i] * (ts[k + 1] - ts[k])
            span = ts[-1] - ts[0]
            if stat.weighted_sum() != integral:
                return rt.fail("C11:persistent-weighted-sum-is-not-the-integral-of-the-signal",
                               lambda: f"weighted_sum {stat.weighted_sum()!r}, integral {integral!r}; trace {model.trace} warm-up {warm} end {end}")
            if span > 0 and abs(stat.weighted_mean() - integral / span) > 1e-12 * max(1.0, abs(integral / span)):
                return rt.fail("C11:persistent-mean-is-not-the-time-average",
                               lambda: f"weighted_mean {stat.weighted_mean()!r}, time average {integral / span!r}; trace {model.trace} warm-up {warm} end {end}")
    for n, (a, b) in enumerate(pairs):
        if not _same(a, b):
            return rt.fail(f"C11:{KIND}-differs-from-ordinary-statistic-on-post-warm-up-observations",
                           lambda: f"getter #{n}: {a!r} expected {b!r}; trace {model.trace} warm-up {warm} end {end}")
    return True


def h_schedule(times: List[int], prios: List[int], warm: int, end: int, pause_at: int, bound: int) -> bool:
    """
    pre: len(times) == K and len(prios) == K
    pre: all(0 <= t <= VMAX + 1 for t in times)
    pre: all(0 <= p <= 1 for p in prios)
    pre: 1 <= end <= VMAX and 0 <= warm <= end
    pre: 0 <= pause_at <= K
    pre: -1 <= bound < end
    pre: bound < 0 or pause_at == 0
    pre: (PAUSEKIND == 0 and bound < 0) or (PAUSEKIND == 1 and pause_at == 0)
    post: _
    """
    return schedule(times, prios, warm, end, pause_at, bound)
