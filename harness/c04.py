"""C04 - simulator lifecycle: commands, states and notifications follow the protocol.

Part 1 (this harness): command sequences issued at quiescence.  Engine A + inline worker.
Commands (VF_L of them, kinds symbolic unless fixed by VF_FIXCMD):
  0 initialize  1 start  2 step  3 stop  4 run_up_to(a)  5 run_up_to_including(a)
  6 end_replication  7 cleanup
Model: four events at times 1,2,2,4 (priorities 5,5,10,5), replication 0..5, warm-up time
symbolic 0..5.  With VF_INNER=1 the handler of the event at time 1 issues one more command
itself (symbolic kind/argument) - "commands issued from handlers".
(end_replication issued by a handler that runs inside step() wakes the run thread while the
caller is still inside step(): that is an overlap, not a quiescent sequence, and is excluded
here.)
Reference protocol automaton (from the docstrings of RunState / ReplicationState /
SimulatorInterface and the property text), see expect() below.  A refused command must raise
DSOLError (nothing else), and leave run state, replication state, clock, number of pending
events and the notification log unchanged.  A monitor subscribed to all eight simulator and
replication event types checks the stream.
"""
import threading
from typing import List

from harness.simmodel import (Ref, make_sim, conv, settle, quiet, SingleReplication, RunState,
                              ReplicationState, DSOLError, CLOCK)
from pydsol.core.interfaces import ReplicationInterface, SimulatorInterface
from pydsol.core.model import DSOLModel
from pydsol.core.pubsub import EventListener
from vf import rt

L = rt.envint("VF_L", 3)
FIXCMD = [int(c) for c in rt.envstr("VF_FIXCMD", "")]
INNER = rt.envint("VF_INNER", 0)
ARGLO = rt.envint("VF_ARGLO", 0)      # split: range of the argument of command #1
ARGHI = rt.envint("VF_ARGHI", 6)
END = 5
TIMES = [1, 2, 2, 4]
PRIOS = [1, 1, 2, 1]        # indices into simmodel.PRIOS = [1, 5, 10] -> 5,5,10,5
INIT, START, STEP, STOP, RUNTO, RUNTOI, ENDREP, CLEANUP = range(8)
NAMES = ["initialize", "start", "step", "stop", "run_up_to", "run_up_to_including", "end_replication", "cleanup"]

ALL_TYPES = [SimulatorInterface.STARTING_EVENT, SimulatorInterface.START_EVENT,
             SimulatorInterface.STOPPING_EVENT, SimulatorInterface.STOP_EVENT,
             SimulatorInterface.TIME_CHANGED_EVENT, ReplicationInterface.START_REPLICATION_EVENT,
             ReplicationInterface.END_REPLICATION_EVENT, ReplicationInterface.WARMUP_EVENT]


class Monitor(EventListener):
    def __init__(self):
        self.log = []        # (name, timestamp or None)
        self.sim = None
        self.at_end = []     # what a listener sees / may do while END_REPLICATION is delivered

    def notify(self, event):
        self.log.append((event.event_type.name, getattr(event, "timestamp", None)))
        if event.event_type.name == "END_REPLICATION_EVENT" and self.sim is not None:
            sim = self.sim
            seen = (sim.run_state, sim.replication_state)
            res = []
            for cmd in (sim.start, sim.step, sim.stop):
                try:
                    cmd()
                    res.append("ok")
                except DSOLError:
                    res.append("refused")
                except Exception as e:      # noqa
                    res.append("other:" + type(e).__name__)
            self.at_end.append((seen, res))


class Model(DSOLModel):
    def __init__(self, sim, monitor, inner=None):
        super().__init__(sim)
        self.monitor = monitor
        self.inner = inner          # (cmd, arg) issued by the handler of the event at time 1
        self.inner_result = None
        self.trace = []

    def construct_model(self):
        from harness.simmodel import PRIOS as P
        for i, t in enumerate(TIMES):
            self.simulator.schedule_event_abs(conv(t), self, "fire", P[PRIOS[i]], i=i)

    def fire(self, i):
        self.trace.append((self.simulator.simulator_time, i))
        self.monitor.log.append(("exec", self.simulator.simulator_time))
        if i == 0 and self.inner is not None:
            self.inner_result = issue(self.simulator, self, None, self.inner[0], self.inner[1])


def issue(sim, model, rep, cmd, arg):
    """returns 'ok', 'refused' or 'other:<type>'"""
    try:
        if cmd == INIT:
            quiet(sim.initialize, model, rep if rep is not None else sim.replication)
        elif cmd == START:
            quiet(sim.start)
        elif cmd == STEP:
            quiet(sim.step)
        elif cmd == STOP:
            quiet(sim.stop)
        elif cmd == RUNTO:
            quiet(sim.run_up_to, conv(arg))
        elif cmd == RUNTOI:
            quiet(sim.run_up_to_including, conv(arg))
        elif cmd == ENDREP:
            quiet(sim.end_replication)
        else:
            quiet(sim.cleanup)
    except DSOLError:
        return "refused"
    except Exception as e:      # noqa
        return "other:" + type(e).__name__
    return "ok"


def check_stream(log, warm, ended_naturally):
    """well-formedness of one replication's notification stream (since the last initialize)."""
    names = [n for n, _ in log]
    n_startrep = names.count("START_REPLICATION_EVENT")
    n_endrep = names.count("END_REPLICATION_EVENT")
    n_warm = names.count("WARMUP_EVENT")
    if n_startrep > 1:
        return "C04:stream-start-replication-twice"
    if n_startrep == 1:
        first_run = [k for k, n in enumerate(names) if n != "STARTING_EVENT"][0]
        if names[first_run] != "START_REPLICATION_EVENT":
            return "C04:stream-start-replication-not-first"
    elif any(n in ("START_EVENT", "exec", "TIME_CHANGED_EVENT", "WARMUP_EVENT") for n in names):
        return "C04:stream-run-without-start-replication"
    if n_endrep > 1:
        return "C04:stream-end-replication-twice"
    if n_endrep == 1 and names[-1] != "END_REPLICATION_EVENT":
        return "C04:stream-end-replication-not-last"
    depth = 0
    for n in names:
        if n == "START_EVENT":
            depth += 1
        elif n == "STOP_EVENT":
            depth -= 1
        if depth < 0 or depth > 1:
            return "C04:stream-start-stop-not-alternating"
        if n in ("exec", "TIME_CHANGED_EVENT", "WARMUP_EVENT") and depth != 1:
            return "C04:stream-activity-outside-start-stop"
    if depth != 0:
        return "C04:stream-start-stop-not-alternating"
    last_t = None
    pending_tc = None
    for n, t in log:
        if n == "TIME_CHANGED_EVENT":
            if last_t is not None and t < last_t:
                return "C04:stream-time-changed-decreasing"
            last_t = t
            pending_tc = t
        elif n in ("exec", "WARMUP_EVENT"):
            if pending_tc is not None and t != pending_tc:
                return "C04:stream-time-changed-not-next-event-time"
            if last_t is not None and t < last_t:
                return "C04:stream-event-before-time-changed"
            pending_tc = None
            if n == "WARMUP_EVENT" and t != conv(warm):
                return "C04:stream-warmup-wrong-time"
    if n_warm > 1:
        return "C04:stream-warmup-twice"
    if ended_naturally and n_warm != 1:
        return "C04:stream-warmup-missing"
    return None


class RefState:
    def __init__(self):
        self.rs = RunState.NOT_INITIALIZED
        self.ps = ReplicationState.NOT_INITIALIZED
        self.clock = conv(0)
        self.ref = None
        self.natural_end = False

    def startable(self):
        return (self.rs in (RunState.INITIALIZED, RunState.STOPPED)
                and self.ps in (ReplicationState.INITIALIZED, ReplicationState.STARTED)
                and self.clock <= conv(END))

    def expect(self, cmd, arg):
        if cmd in (INIT, CLEANUP):
            return True
        if cmd in (START, STEP):
            return self.startable()
        if cmd in (RUNTO, RUNTOI):
            return self.startable() and conv(arg) >= self.clock
        if cmd == STOP:
            return False          # never running at quiescence
        return self.rs in (RunState.INITIALIZED, RunState.STOPPED)     # end_replication

    def apply(self, cmd, arg, warm):
        E = conv(END)
        if cmd == INIT:
            self.rs, self.ps, self.clock = RunState.INITIALIZED, ReplicationState.INITIALIZED, conv(0)
            self.ref = Ref([0] * 4, TIMES, PRIOS, [-1] * 4, [-1] * 4, warmup=warm)
            self.natural_end = False
        elif cmd == CLEANUP:
            self.rs, self.ps = RunState.NOT_INITIALIZED, ReplicationState.NOT_INITIALIZED
        elif cmd == START or (cmd in (RUNTO, RUNTOI) and conv(arg) > E):
            self.ref.run(E, True)
            self._end(True)
        elif cmd in (RUNTO, RUNTOI):
            b = conv(arg)
            self.ref.run(b, cmd == RUNTOI)
            self.clock = b
            if b >= E:
                self._end(cmd == RUNTOI)
            else:
                self.rs, self.ps = RunState.STOPPED, ReplicationState.STARTED
        elif cmd == STEP:
            t = self.ref.peek_time()
            if t is not None and t <= E:
                self.ref.step()
                self.clock = t
            self.rs, self.ps = RunState.STOPPED, ReplicationState.STARTED
        elif cmd == ENDREP:
            self._end(False)

    def _end(self, natural):
        self.rs, self.ps, self.clock = RunState.ENDED, ReplicationState.ENDED, conv(END)
        self.natural_end = natural


def _threads_alive():
    return [t for t in threading.enumerate() if t.name == "sim" and t.is_alive()]


def lifecycle(cmds, args, warm, icmd, iarg):
    sim = make_sim()
    mon = Monitor()
    model = Model(sim, mon, (icmd, iarg) if INNER else None)
    rep = SingleReplication("rep", conv(0), conv(warm), conv(END))
    R = RefState()
    for n in range(L):
        cmd, arg = cmds[n], args[n]
        where = f"command {n} {NAMES[cmd]}({arg})"
        exp_ok = R.expect(cmd, arg)
        before = (sim.run_state, sim.replication_state, sim.simulator_time,
                  sim.eventlist().size(), len(mon.log), len(model.trace))
        model.inner_result = None
        res = issue(sim, model, rep, cmd, arg)
        settle(sim)
        if res.startswith("other"):
            return rt.fail("C04:" + NAMES[cmd] + "-raised-" + res[6:], lambda: f"{where} in state {before}")
        if INNER and model.inner_result is not None:
            # a command was issued from inside the handler: only the generic rules are checked
            return inner_rules(sim, model, mon, R, cmd, arg, warm, icmd, iarg, before)
        if exp_ok and res != "ok":
            return rt.fail("C04:" + NAMES[cmd] + "-wrongly-refused", lambda: f"{where} in state {before}")
        if not exp_ok and res == "ok":
            return rt.fail("C04:" + NAMES[cmd] + "-wrongly-accepted", lambda: f"{where} in state {before}")
        if res == "refused":
            after = (sim.run_state, sim.replication_state, sim.simulator_time,
                     sim.eventlist().size(), len(mon.log), len(model.trace))
            if after != before:
                return rt.fail("C04:refused-" + NAMES[cmd] + "-changed-state", lambda: f"{where}: {before} -> {after}")
            continue
        # the command took effect
        if cmd in (INIT, CLEANUP):
            mon.log = []
            mon.at_end = []
            mon.sim = sim
            model.trace = []
        if cmd == INIT:
            for et in ALL_TYPES:
                sim.add_listener(et, mon)
        R.apply(cmd, arg, warm)
        if sim.run_state != R.rs or sim.replication_state != R.ps:
            return rt.fail("C04:state-after-" + NAMES[cmd],
                           lambda: f"{where}: {sim.run_state}/{sim.replication_state} expected {R.rs}/{R.ps}")
        if cmd != CLEANUP and sim.simulator_time != R.clock:
            return rt.fail("C04:clock-after-" + NAMES[cmd], lambda: f"{where}: clock {sim.simulator_time} expected {R.clock}")
        if R.ref is not None and cmd != CLEANUP:
            if [i for _, i in model.trace] != [i for _, i in R.ref.trace]:
                return rt.fail("C04:trace-after-" + NAMES[cmd], lambda: f"{where}: {model.trace} expected {R.ref.trace}")
        if cmd not in (INIT, CLEANUP):
            bad = check_stream(mon.log, warm, R.natural_end and warm <= END)
            if bad:
                return rt.fail(bad, lambda: f"{where}: stream {mon.log}")
        for seen, res in mon.at_end:
            if seen != (RunState.ENDED, ReplicationState.ENDED) or res != ["refused"] * 3:
                return rt.fail("C04:not-ended-while-end-replication-is-delivered",
                               lambda: f"{where}: a listener of END_REPLICATION_EVENT sees {seen}; start/step/stop -> {res}")
        if R.rs == RunState.ENDED:
            names = [x for x, _ in mon.log]
            if names.count("END_REPLICATION_EVENT") != 1:
                return rt.fail("C04:ended-without-end-replication-event", lambda: f"{where}: {mon.log}")
        if rt.MODE == "replay" and (R.rs == RunState.ENDED or cmd == CLEANUP):
            import time
            time.sleep(0.05)
            if _threads_alive():
                return rt.fail("C04:run-thread-not-terminated", lambda: f"{where}: {_threads_alive()}")
    return True


def inner_rules(sim, model, mon, R, cmd, arg, warm, icmd, iarg, before):
    """A handler (event at time 1, running inside a start/step/bounded run) issued (icmd, iarg)."""
    where = f"{NAMES[cmd]}({arg}) with handler-issued {NAMES[icmd]}({iarg})"
    res = model.inner_result
    if res.startswith("other"):
        return rt.fail("C04:inner-" + NAMES[icmd] + "-raised-" + res[6:], lambda: where)
    if icmd in (INIT, START, STEP, RUNTO, RUNTOI) and res == "ok":
        return rt.fail("C04:inner-" + NAMES[icmd] + "-accepted-while-running", lambda: where)
    if icmd in (INIT, START, STEP, RUNTO, RUNTOI):
        # refused: the surrounding command must behave as if nothing had been issued
        R.apply(cmd, arg, warm)
        if sim.run_state != R.rs or sim.replication_state != R.ps or sim.simulator_time != R.clock:
            return rt.fail("C04:refused-inner-" + NAMES[icmd] + "-changed-the-run",
                           lambda: f"{where}: {sim.run_state}/{sim.replication_state}/t={sim.simulator_time} "
                                   f"expected {R.rs}/{R.ps}/t={R.clock}")
        if [i for _, i in model.trace] != [i for _, i in R.ref.trace]:
            return rt.fail("C04:refused-inner-" + NAMES[icmd] + "-changed-the-run",
                           lambda: f"{where}: {model.trace} expected {R.ref.trace}")
    bad = check_stream(mon.log, warm, False)
    if bad:
        return rt.fail(bad + "-inner", lambda: f"{where}: stream {mon.log}")
    return True


def h_cmds(cmds: List[int], args: List[int], warm: int, icmd: int, iarg: int) -> bool:
    """
    pre: len(cmds) == L and len(args) == L
    pre: all(0 <= c <= 7 for c in cmds)
    pre: all(0 <= a <= 6 for a in args)
    pre: all(cmds[i] == FIXCMD[i] for i in range(len(FIXCMD)))
    pre: all(cmds[i] in (4, 5) or args[i] == 0 for i in range(L))
    pre: L < 2 or cmds[1] not in (4, 5) or ARGLO <= args[1] <= ARGHI
    pre: 0 <= warm <= 5
    pre: 0 <= icmd <= 6 and 0 <= iarg <= 6
    pre: INNER == 1 or (icmd == 0 and iarg == 0)
    pre: icmd in (4, 5) or iarg == 0
    pre: icmd != 6 or all(c != 2 for c in cmds)
    post: _
    """
    return lifecycle(cmds, args, warm, icmd, iarg)


# ---------------------------------------------------------------------------------------------------------------
# commands issued from LISTENERS (they run on the run thread, or on the caller's thread for STARTING / STOPPING /
# START_REPLICATION): a listener of one notification type issues one command the first time it is notified.
# Nothing is predicted about whether the command is admitted; the quiescent rules of part 2 apply:
# no transient run state at quiescence, ENDED consistent, well-formed stream, nothing lost or duplicated, an
# ADMITTED command takes effect (a start runs to the end; a stop issued while model events are still pending
# leaves the simulator paused), and a paused simulator can be resumed to the end.
# ---------------------------------------------------------------------------------------------------------------
LISTEN_ET = rt.envint("VF_LISTEN", 1)      # index into ALL_TYPES
TOPCMD = rt.envint("VF_TOP", START)        # the command issued by the caller


class Commander(EventListener):
    def __init__(self, sim, model, cmd, arg):
        self.sim, self.model, self.cmd, self.arg = sim, model, cmd, arg
        self.result = None
        self.at = None

    def notify(self, event):
        if self.result is None:
            self.result = "pending"
            self.at = (len(self.model.trace), self.sim.run_state, self.sim.replication_state)
            self.result = issue(self.sim, self.model, None, self.cmd, self.arg)


def h_listener(icmd: int, iarg: int, warm: int, targ: int) -> bool:
    """
    pre: icmd in (1, 2, 3, 4, 5)
    pre: 0 <= iarg <= 6 and (icmd in (4, 5) or iarg == 0)
    pre: 0 <= warm <= 5
    pre: 0 <= targ <= 6 and (TOPCMD in (4, 5) or targ == 0)
    post: _
    """
    sim = make_sim()
    mon = Monitor()
    model = Model(sim, mon, None)
    rep = SingleReplication("rep", conv(0), conv(warm), conv(END))
    quiet(sim.initialize, model, rep)
    settle(sim)
    com = Commander(sim, model, icmd, iarg)
    for et in ALL_TYPES:
        sim.add_listener(et, mon)
    sim.add_listener(ALL_TYPES[LISTEN_ET], com)       # after the monitor: the monitor sees the notification, then the command acts
    where = f"{NAMES[TOPCMD]}({targ}) with {NAMES[icmd]}({iarg}) issued by a listener of {ALL_TYPES[LISTEN_ET].name}"
    top = issue(sim, model, rep, TOPCMD, targ)
    settle(sim)
    if top.startswith("other"):
        return rt.fail("C04:" + NAMES[TOPCMD] + "-raised-" + top[6:], lambda: where)
    res = com.result
    if res is None:
        return True                                   # the notification never came
    if res == "pending" or res.startswith("other"):
        return rt.fail("C04:listener-issued-" + NAMES[icmd] + "-raised-" + res.split(":")[-1], lambda: f"{where}: {res}")
    rs, ps = sim.run_state, sim.replication_state
    names = [n for n, _ in mon.log]
    if rs not in (RunState.INITIALIZED, RunState.STOPPED, RunState.ENDED):
        return rt.fail("C04:listener-command-leaves-transient-run-state-" + rs.name, lambda: f"{where} ({res} in {com.at}): {rs}/{ps}; stream {names}")
    if (rs == RunState.ENDED) != (ps == ReplicationState.ENDED) or (ps == ReplicationState.ENDED) != (names.count("END_REPLICATION_EVENT") == 1):
        return rt.fail("C04:listener-command-ended-inconsistent", lambda: f"{where} ({res}): {rs}/{ps}; stream {names}")
    bad = check_stream(mon.log, warm, False)
    if bad:
        return rt.fail(bad + "-listener", lambda: f"{where} ({res} in {com.at}): stream {mon.log}")
    idx = [i for _, i in model.trace]
    order = [0, 2, 1, 3]                              # execution order of the four events (priorities 5,5,10,5 at 1,2,2,4)
    if idx != order[:len(idx)]:
        return rt.fail("C04:listener-command-events-lost-or-duplicated", lambda: f"{where} ({res}): trace {model.trace}")
    if res == "ok":
        done_before = com.at[0]
        if icmd == START and rs != RunState.ENDED:
            return rt.fail("C04:listener-issued-start-had-no-effect", lambda: f"{where}: admitted in {com.at}, quiescent in {rs}/{ps} at t={sim.simulator_time}; stream {names}")
        if icmd == STOP and com.at[1] in (RunState.STARTING, RunState.STARTED) and LISTEN_ET in (1, 4, 7):
            # admitted while the run was under way (notified of START / TIME_CHANGED / WARMUP): at most the event
            # whose execution is already being prepared may still run
            if len(idx) > done_before + 1:
                return rt.fail("C04:listener-issued-stop-had-no-effect",
                               lambda: f"{where}: admitted in {com.at} after {done_before} events, yet {len(idx)} events ran; final {rs}/{ps}; stream {names}")
    if rs in (RunState.INITIALIZED, RunState.STOPPED) and sim.simulator_time <= conv(END):
        sim.remove_listener(ALL_TYPES[LISTEN_ET], com)
        r2 = issue(sim, model, rep, START, 0)
        settle(sim)
        if r2 != "ok" or sim.run_state != RunState.ENDED or [i for _, i in model.trace] != order:
            return rt.fail("C04:listener-command-stuck-after-quiescence",
                           lambda: f"{where} ({res}): start() at quiescence from {rs}/{ps} -> {r2}, {sim.run_state}, trace {model.trace}")
    return True
