"""C06 - replications are isolated: re-initialising gives a fresh, reproducible run.

Engine A + inline worker.  A model that creates its statistics in construct_model (as the
documentation instructs), draws its delays from a seeded stream and feeds a counter, a tally and a
persistent statistic is run under a symbolic PRIOR HISTORY, re-initialised, and run to the end;
the second replication must equal the same replication on a brand-new simulator and model.
Prior history (VF_HIST fixed per condition, parameters symbolic):
   0 initialised only   1 stepped j times   2 bounded run to t   3 paused at event j (stop() from a
   handler)   4 run to the end   5 paused by a handler fault (WARN_AND_PAUSE)   6 stepped j times, then an
   explicit cleanup()   7 ended by a handler fault under WARN_AND_END (which cleans up itself)
VF_START: the replication's start time (0 or later; event times, bounds and the warm-up move with it).
Symbolic: the time of the second root event, the delay drawn from the stream (through the uniform it
delivers), the warm-up time and the history parameter j / t; fixed: first root at 1, replication length VF_VMAX.
"""
from typing import List

from harness import rngstub
from harness.simmodel import (make_sim, conv, settle, quiet, SingleReplication, RunState, ReplicationState, DSOLError,
                              ErrorStrategy, HandlerFault, PRIOS)
from pydsol.core.interfaces import ReplicationInterface, SimulatorInterface
from pydsol.core.model import DSOLModel
from pydsol.core.pubsub import EventListener, EventProducer, EventType
from pydsol.core.statistics import SimCounter, SimPersistent, SimTally
from pydsol.core.streams import MersenneTwister
from vf import rt

HIST = rt.envint("VF_HIST", 1)
VMAX = rt.envint("VF_VMAX", 3)
START0 = rt.envint("VF_START", 0)           # replication start time (the simulator's own initial time stays 0)
K = 3
OBS = EventType("VF_C06_OBS")
GRID = [0.0, 0.4, 0.8, 0.9999999999999999]


class Monitor(EventListener):
    def __init__(self):
        self.log = []

    def notify(self, event):
        self.log.append((event.event_type.name, getattr(event, "timestamp", None)))


class StatModel(DSOLModel):
    """three events: two roots at symbolic times, the handler of slot 0 schedules slot 2 after a delay drawn
    from the model's seeded stream; every handler publishes an observation"""

    def __init__(self, sim, vals, prios, seed, stop_at=-1, fail_at=-1):
        super().__init__(sim)
        self.vals, self.prios, self.seed = vals, prios, seed
        self.stop_at, self.fail_at = stop_at, fail_at
        self.prod = None
        self.trace = []
        self.count = 0

    def construct_model(self):
        sim = self.simulator
        self.stream = MersenneTwister(self.seed)
        self.prod = EventProducer()       # everything the model owns is rebuilt here, as the documentation instructs
        self.counter = SimCounter("cnt", "counter", sim, producer=self.prod, event_type=OBS)
        self.tally = SimTally("tal", "tally", sim, producer=self.prod, event_type=OBS)
        self.persistent = SimPersistent("per", "persistent", sim, producer=self.prod, event_type=OBS)
        self.trace = []
        self.count = 0
        sim.schedule_event_abs(conv(START0 + self.vals[0]), self, "fire", PRIOS[self.prios[0]], i=0)
        sim.schedule_event_abs(conv(START0 + self.vals[1]), self, "fire", PRIOS[self.prios[1]], i=1)

    def fire(self, i):
        sim = self.simulator
        self.trace.append((sim.simulator_time, i))
        self.count += 1
        self.prod.fire(OBS, i + 1)
        if i == 0:
            d = self.stream.next_int(0, 2)
            sim.schedule_event_rel(conv(d), self, "fire", PRIOS[self.prios[2]], i=2)
        if self.count == self.stop_at:
            quiet(sim.stop)
        if self.count == self.fail_at:
            raise HandlerFault("planned")


def _stats(model):
    c, t, p = model.counter, model.tally, model.persistent
    out = [c.count(), c.n(), t.n(), t.sum(), t.min(), t.max(), t.mean(), p.n(), p.weighted_sum(), p.weighted_mean(), p.isactive()]
    return out


def _same(a, b):
    if len(a) != len(b):
        return False
    for x, y in zip(a, b):
        if not ((x != x and y != y) or x == y):
            return False
    return True


def _run_to_end(sim):
    guard = 0
    while sim.run_state != RunState.ENDED and guard < 6:
        guard += 1
        try:
            quiet(sim.start)
        except DSOLError:
            return False
        settle(sim)
    return sim.run_state == RunState.ENDED


def _fresh_reference(vals, prios, seed, end, warm):
    sim = make_sim("ref")
    model = StatModel(sim, vals, prios, seed)
    rep = SingleReplication("rep", conv(START0), conv(warm), conv(end))
    mon = Monitor()
    quiet(sim.initialize, model, rep)
    for et in (ReplicationInterface.START_REPLICATION_EVENT, ReplicationInterface.END_REPLICATION_EVENT,
               ReplicationInterface.WARMUP_EVENT, SimulatorInterface.TIME_CHANGED_EVENT):
        sim.add_listener(et, mon)
    _run_to_end(sim)
    return model, mon, sim


def isolated(vals, prios, seed, end, warm, j, ui):
    if rt.MODE == "symbolic":
        rngstub.install([GRID[i] for i in ui])
    sim = make_sim("sim")
    fail_at = j if HIST in (5, 7) else -1
    stop_at = j if HIST == 3 else -1
    model = StatModel(sim, vals, prios, seed, stop_at=stop_at, fail_at=fail_at)
    rep = SingleReplication("rep", conv(START0), conv(warm), conv(end))
    if HIST == 5:
        sim.set_error_strategy(ErrorStrategy.WARN_AND_PAUSE)
    if HIST == 7:
        sim.set_error_strategy(ErrorStrategy.WARN_AND_END)
    quiet(sim.initialize, model, rep)
    # ---- prior history
    try:
        if HIST in (1, 6):
            for _ in range(j):
                quiet(sim.step)
                settle(sim)
        elif HIST == 2:
            quiet(sim.run_up_to, conv(START0 + j))
            settle(sim)
        elif HIST in (3, 5, 7):
            quiet(sim.start)
            settle(sim)
        elif HIST == 4:
            _run_to_end(sim)
        if HIST == 6:
            quiet(sim.cleanup)
    except DSOLError:
        pass
    # initialising while running must be refused: not reachable at quiescence with the inline worker, so it is
    # exercised from inside a handler by C04; here the simulator is idle
    model.stop_at, model.fail_at = -1, -1
    try:
        quiet(sim.initialize, model, rep)
    except Exception as e:      # noqa
        return rt.fail("C06:re-initialize-raised-" + type(e).__name__, lambda: f"history {HIST} j={j}: {e!r}")
    if sim.simulator_time != conv(START0):
        return rt.fail("C06:clock-not-reset", lambda: f"{sim.simulator_time}, replication start {conv(START0)}")
    if sim.run_state != RunState.INITIALIZED or sim.replication_state != ReplicationState.INITIALIZED:
        return rt.fail("C06:state-after-re-initialize", lambda: f"{sim.run_state} {sim.replication_state}")
    if sim.eventlist().size() != 3:
        return rt.fail("C06:pending-events-after-re-initialize", lambda: f"{sim.eventlist().size()} pending (2 model events + 1 warm-up expected)")
    if model.get_output_statistic("tal") is not model.tally or model.get_output_statistic("cnt") is not model.counter \
            or model.get_output_statistic("per") is not model.persistent:
        return rt.fail("C06:output-statistics-not-those-of-the-new-replication", "get_output_statistic returns a stale object")
    mon = Monitor()
    for et in (ReplicationInterface.START_REPLICATION_EVENT, ReplicationInterface.END_REPLICATION_EVENT,
               ReplicationInterface.WARMUP_EVENT, SimulatorInterface.TIME_CHANGED_EVENT):
        sim.add_listener(et, mon)
    if not _run_to_end(sim):
        return rt.fail("C06:second-replication-does-not-end", lambda: f"{sim.run_state} {sim.replication_state}")
    ref_model, ref_mon, ref_sim = _fresh_reference(vals, prios, seed, end, warm)
    if model.trace != ref_model.trace:
        return rt.fail("C06:second-replication-trace-differs", lambda: f"history {HIST} j={j}: {model.trace} vs fresh {ref_model.trace}")
    if mon.log != ref_mon.log:
        return rt.fail("C06:second-replication-notifications-differ", lambda: f"{mon.log} vs fresh {ref_mon.log}")
    a, b = _stats(model), _stats(ref_model)
    if not _same(a, b):
        return rt.fail("C06:second-replication-statistics-differ", lambda: f"history {HIST} j={j}: {a} vs fresh {b}")
    if sim.simulator_time != ref_sim.simulator_time:
        return rt.fail("C06:final-clock-differs", lambda: f"{sim.simulator_time} vs {ref_sim.simulator_time}")
    return True


def h_isolated(vals: List[int], prios: List[int], seed: int, end: int, warm: int, j: int, ui: List[int]) -> bool:
    """
    pre: len(vals) == 2 and len(prios) == 3 and len(ui) == 1
    pre: vals[0] == 1 and 0 <= vals[1] <= VMAX
    pre: all(p == 1 for p in prios)
    pre: end == VMAX and 0 <= warm <= end
    pre: 0 <= j <= VMAX
    pre: all(0 <= i <= 2 for i in ui)
    pre: seed == 7
    post: _
    """
    return isolated(vals, prios, seed, end, warm, j, ui)


class InitFromHandler(StatModel):
    def fire(self, i):
        if self.count == 0 and not getattr(self, "tried", False):
            self.tried = True
            before = (self.simulator.eventlist().size(), self.simulator.run_state, self.simulator.replication_state,
                      self.simulator.simulator_time)
            try:
                self.simulator.initialize(self, self.simulator.replication)
                self.refused = False
            except DSOLError:
                self.refused = True
            except Exception as e:      # noqa
                self.refused = "other:" + type(e).__name__
            after = (self.simulator.eventlist().size(), self.simulator.run_state, self.simulator.replication_state,
                     self.simulator.simulator_time)
            self.changed = before != after
        super().fire(i)


def h_init_while_running(v1: int, warm: int, ui: List[int]) -> bool:
    """
    pre: 0 <= v1 <= VMAX and 0 <= warm <= VMAX
    pre: len(ui) == 1 and 0 <= ui[0] <= 2
    post: _
    """
    if rt.MODE == "symbolic":
        rngstub.install([GRID[i] for i in ui])
    sim = make_sim("sim")
    model = InitFromHandler(sim, [1, v1], [1, 1, 1], 7)
    rep = SingleReplication("rep", conv(START0), conv(warm), conv(VMAX))
    quiet(sim.initialize, model, rep)
    if not _run_to_end(sim):
        return rt.fail("C06:run-with-initialize-from-handler-does-not-end", lambda: f"{sim.run_state}")
    if model.refused is not True:
        return rt.fail("C06:initialize-while-running-not-refused", lambda: f"{model.refused}")
    if model.changed:
        return rt.fail("C06:refused-initialize-changed-state", "event list / states / clock changed")
    ref_model, _, _ = _fresh_reference([1, v1], [1, 1, 1], 7, VMAX, warm)
    if model.trace != ref_model.trace or not _same(_stats(model), _stats(ref_model)):
        return rt.fail("C06:refused-initialize-disturbed-the-run", lambda: f"{model.trace} vs {ref_model.trace}")
    return True
