"""C12 - random streams are reproducible, resettable, restorable, independent, in range.

Engine A on the real MersenneTwister wrapper with the model generator of harness/rngstub.py
(random.Random is C code; the Mersenne Twister itself is trusted).  The model makes "the value
at position i of the sequence of seed s" an explicit symbolic double u(s,i) in [0,1): the
wrapper is correct iff every draw returns exactly the value a reference stream automaton
computes from the same u(.,.), whatever the interleaving.

VF_SCRIPT: operation skeleton, upper case = stream 0, lower case = stream 1
   F next_float  I next_int(lo,hi)  B next_bool  S set_seed(x)  R reset  V save_state
   T restore_state(most recent save of that stream)
Arguments (seeds, lo, hi) and the pool of uniforms are symbolic.
"""
import copy
import math
from typing import List

from harness import rngstub
from pydsol.core.streams import MersenneTwister
from vf import rt

SCRIPT = rt.envstr("VF_SCRIPT", "FIBfRFIB")
NOPS = len(SCRIPT)
NU = rt.envint("VF_NU", 6)
SAME_SEED = rt.envint("VF_SAMESEED", 0)     # 1: both streams start with the same seed (twins)
INT_LO = rt.envint("VF_LO", -2)             # next_int range is concrete per condition (the range claim for
INT_W = rt.envint("VF_W", 3)                # ALL ranges is the Engine-B lemma); set_seed arguments stay symbolic


def run(seed0, seed1, xs, ys, us):
    if rt.MODE != "symbolic":
        # replay 1: the real wrapper on the real Mersenne Twister
        import pydsol.core.streams as _st
        import random as _random
        _st.Random = _random.Random
        if not replay_protocol([MersenneTwister(seed0), MersenneTwister(seed1)], seed0, seed1, xs, ys):
            return False
        # replay 2: the real wrapper on a scripted generator that delivers the counterexample's uniforms
        # (extreme values such as the largest double below 1 have probability 2^-53 on the real generator)
    pool = rngstub.install(us)
    streams = [MersenneTwister(seed0), MersenneTwister(seed1)]
    # reference = the naive use of the same public API on a SHADOW object per stream: set_seed(x) and reset() are
    # replaced by constructing a fresh stream (with x / with the current seed), save/restore by a deep copy of the
    # whole shadow object ("continues exactly as it did after the save").  The shadows draw the same u(key, idx)
    # from the pool; they never see the other stream's operations.  Nothing is assumed about how many uniforms a
    # draw consumes or about state the wrapper keeps besides the generator.
    shadows = [MersenneTwister(seed0), MersenneTwister(seed1)]
    cur = [seed0, seed1]
    saved, shadow_saved = [None, None], [None, None]
    for n, op in enumerate(SCRIPT):
        k = 0 if op.isupper() else 1
        st = streams[k]
        o = op.upper()
        where = f"op#{n} {op}"
        if o == "F":
            got, exp = st.next_float(), shadows[k].next_float()
            if got != exp:
                return rt.fail("C12:next_float-value", lambda: where)
            if not (0.0 <= got < 1.0):
                return rt.fail("C12:next_float-range", lambda: where)
        elif o == "B":
            got, exp = st.next_bool(), shadows[k].next_bool()
            if got != exp:
                return rt.fail("C12:next_bool-value", lambda: where)
        elif o == "I":
            lo, hi = INT_LO, INT_LO + INT_W
            got = st.next_int(lo, hi)
            exp = shadows[k].next_int(lo, hi)
            if got != exp:
                return rt.fail("C12:next_int-value", lambda: where)
            if not (lo <= got <= hi):
                return rt.fail("C12:next_int-range", lambda: f"{where}: {got} not in [{lo},{hi}]")
        elif o == "S":
            st.set_seed(xs[n])
            cur[k] = xs[n]
            shadows[k] = MersenneTwister(xs[n])
        elif o == "R":
            st.reset()
            # reset replays the sequence of the CURRENT seed, also when the generator state was restored
            # from a checkpoint taken under an earlier seed
            shadows[k] = MersenneTwister(cur[k])
        elif o == "V":
            saved[k] = st.save_state()
            shadow_saved[k] = copy.deepcopy(shadows[k])
        elif o == "T":
            if saved[k] is None:
                continue
            st.restore_state(saved[k])
            shadows[k] = copy.deepcopy(shadow_saved[k])
        else:
            raise RuntimeError(op)
        if st.seed() != cur[k]:
            return rt.fail("C12:seed()", lambda: f"{where}: {st.seed()} != {cur[k]}")
    if pool.exhausted:
        raise RuntimeError("uniform pool too small for this script (harness error)")
    return True


def replay_protocol(streams, seed0, seed1, xs, ys):
    """replay on the real Mersenne Twister.  Reference = the naive use of the same public API:
    a second object per stream on which reset() is replaced by constructing a fresh stream with the
    current seed; plus stream 0 alone (without the interleaved stream-1 operations)."""
    cur = [seed0, seed1]
    refs = [MersenneTwister(seed0), MersenneTwister(seed1)]
    solo = MersenneTwister(seed0)
    saved, rsaved, ssaved = [None, None], [None, None], None

    def draw(st, o):
        if o == "F":
            return st.next_float()
        if o == "B":
            return st.next_bool()
        return st.next_int(INT_LO, INT_LO + INT_W)

    for n, op in enumerate(SCRIPT):
        k = 0 if op.isupper() else 1
        o = op.upper()
        st = streams[k]
        where = f"op#{n} {op}"
        if o in "FBI":
            got, exp = draw(st, o), draw(refs[k], o)
            if got != exp:
                return rt.fail("C12:sequence-differs-from-reference-stream", f"{where}: {got} expected {exp} (seed {cur[k]})")
            if o == "F" and not (0.0 <= got < 1.0):
                return rt.fail("C12:next_float-range", f"{got}")
            if o == "I" and not (INT_LO <= got <= INT_LO + INT_W):
                return rt.fail("C12:next_int-range", f"{where}: {got} not in [{INT_LO},{INT_LO + INT_W}]")
            if k == 0 and draw(solo, o) != got:
                return rt.fail("C12:stream-influenced-by-another-stream", f"{where}")
        elif o == "S":
            st.set_seed(xs[n])
            refs[k] = MersenneTwister(xs[n])
            cur[k] = xs[n]
            if k == 0:
                solo = MersenneTwister(xs[n])
        elif o == "R":
            st.reset()
            refs[k] = MersenneTwister(cur[k])
            if k == 0:
                solo = MersenneTwister(cur[0])
        elif o == "V":
            saved[k], rsaved[k] = st.save_state(), copy.deepcopy(refs[k])
            if k == 0:
                ssaved = copy.deepcopy(solo)
        elif o == "T" and saved[k] is not None:
            st.restore_state(saved[k])
            refs[k] = copy.deepcopy(rsaved[k])
            if k == 0:
                solo = copy.deepcopy(ssaved)
        if st.seed() != cur[k]:
            return rt.fail("C12:seed()", f"{where}: seed() = {st.seed()}, current seed {cur[k]}")
    for k in (0, 1):
        st = streams[k]
        sv = st.save_state()
        d = [st.next_int(-5, 5) for _ in range(3)]
        st.restore_state(sv)
        e = [st.next_int(-5, 5) for _ in range(3)]
        if d != e:
            return rt.fail("C12:restore-does-not-continue-as-after-save", f"stream {k}: {d} {e}")
        st.reset()
        a = [st.next_float() for _ in range(3)]
        fresh = MersenneTwister(cur[k])
        c = [fresh.next_float() for _ in range(3)]
        if a != c:
            return rt.fail("C12:reset-does-not-replay-current-seed", f"stream {k}: {a} {c}")
    return True


UGRID = [0.0, 0.25, 0.5, 0.75, 0.9999999999999999]
HAS_INT = "I" in SCRIPT.upper()


def h_protocol(seed0: int, seed1: int, xs: List[int], ys: List[int], us: List[float], ui: List[int]) -> bool:
    """
    pre: len(xs) == NOPS and len(ys) == NOPS and len(us) == NU and len(ui) == NU
    pre: all(0 <= i < 5 for i in ui)
    pre: HAS_INT or all(i == 0 for i in ui)
    pre: all(y == 0 for y in ys)
    pre: all(SCRIPT[i] in "Ss" or xs[i] == 0 for i in range(NOPS))
    pre: all(0.0 <= u < 1.0 for u in us)
    pre: SAME_SEED == 0 or seed0 == seed1
    post: _
    """
    # math.floor of a symbolic double is concretised by the symbolic executor: scripts with next_int
    # take their uniforms from a grid (incl. 0.0 and the largest double below 1) through symbolic indices
    if HAS_INT:
        us = [UGRID[i] for i in ui]
    return run(seed0, seed1, xs, ys, us)


def r_int_range(lo, hi) -> bool:
    """replay: real streams, extreme uniforms injected through a scripted generator"""
    class Scripted:
        def __init__(self, vals):
            self.vals, self.i = vals, 0

        def random(self):
            v = self.vals[self.i % len(self.vals)]
            self.i += 1
            return v

        def getrandbits(self, k):
            return int(self.random() * (1 << k))

        def randrange(self, a, b=None):
            a, b = (0, a) if b is None else (a, b)
            return a + int(self.random() * (b - a))

        def randint(self, a, b):
            return self.randrange(a, b + 1)

        def seed(self, s):
            self.i = 0
    st = MersenneTwister(1)
    st._random = Scripted([0.0, 0.5, 0.9999999999999999, 0.25, 0.75])
    for _ in range(5):
        v = st.next_int(lo, hi)
        if not (lo <= v <= hi) or not isinstance(v, int):
            return rt.fail("C12:next_int-range", f"next_int({lo},{hi}) = {v!r}")
    st._random.i = 0
    f = st.next_float()
    b = [st.next_bool() for _ in range(4)]
    if not (0.0 <= f < 1.0) or not all(isinstance(x, bool) for x in b):
        return rt.fail("C12:next_float-range-or-next_bool-type", f"{f} {b}")
    real = MersenneTwister(7)
    for _ in range(1000):
        v = real.next_int(lo, hi)
        if not (lo <= v <= hi):
            return rt.fail("C12:next_int-range", f"next_int({lo},{hi}) = {v!r}")
    return True
