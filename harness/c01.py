"""C01 - event list is a faithful priority queue.  Engine A (CrossHair) harnesses.

Everything goes through the public API of EventListHeap / SimEvent, so a change of
data structure that keeps the behaviour still passes.

Bounds (env): VF_SCRIPT  op skeleton executed after the initial build, letters
                         A add(new event)      R remove(event #k, any event created
                         P pop_first()           so far, pending or not)
                         K peek_first()        C contains(event #k)
                         X clear()
              VF_N       number of events added by the initial build
              VF_TMAX    times are ints in 0..VF_TMAX, priorities in 1..3
              VF_TIME    int | float | duration (duration: grid of Duration values
                         selected by the symbolic ints)
After every operation the return value, size(), is_empty() and peek_first() are
compared with a reference multiset ordered by (time, -priority, id); at the end the
list is drained with pop_first() and every pop must be the reference minimum.
"""
from typing import List

from pydsol.core.eventlist import EventListHeap
from pydsol.core.simevent import SimEvent
from vf import rt

SCRIPT = rt.envstr("VF_SCRIPT", "R")
N = rt.envint("VF_N", 4)
TMAX = rt.envint("VF_TMAX", 8)
TIME = rt.envstr("VF_TIME", "int")
NEV = N + SCRIPT.count("A")          # events created on a path
NK = sum(SCRIPT.count(c) for c in "RC")   # index arguments
FIXK = rt.envint("VF_FIXK", -1)       # split: fix the first index argument
SPLIT12 = rt.envint("VF_SPLIT12", -1)  # split: order of the times of events #1 and #2
HEAPPRE = rt.envint("VF_HEAPPRE", 0)  # 1: the N initial events arrive in heap order (time of the
#                                       parent slot <= own time, equal priorities): the build
#                                       needs no sifting, so every heap-ordered array of N
#                                       entries is the pre-state at a fraction of the paths


class _Target:
    def m(self):
        pass


_TARGET = _Target()

if TIME == "duration":
    from pydsol.core.units import Duration
    _GRID = [Duration(30, "s"), Duration(0.5, "min"), Duration(0.0), Duration(0.5),
             Duration(1, "min")]


_BIG = 2 ** 53


def _time(t):
    if TIME == "int":
        return t
    if TIME == "bigint":
        # int clock beyond 2**53, where neighbouring ints are no longer distinct doubles: CONCRETE ints through an explicit
        # fork (a symbolic int converted with float() would be an exact real)
        for k in range(TMAX + 1):
            if t == k:
                return _BIG + k
        return _BIG
    if TIME == "float":
        return t / 2          # symbolic real, halves included
    return _GRID[t]


def _before(a, b):
    """a strictly before b in (time, -priority, id) order."""
    if a.time < b.time:
        return True
    if a.time > b.time:
        return False
    if a.priority > b.priority:
        return True
    if a.priority < b.priority:
        return False
    return a.id < b.id


def _ref_min(ref):
    best = None
    for e in ref:
        if best is None or _before(e, best):
            best = e
    return best


def _idx(lst, e):
    for i, x in enumerate(lst):
        if x is e:
            return i
    return -1


def _observe(el, ref, where):
    if el.size() != len(ref):
        return rt.fail("C01:size", lambda: f"{where}: size()={el.size()} expected {len(ref)}")
    if el.is_empty() != (len(ref) == 0):
        return rt.fail("C01:is_empty", lambda: f"{where}: is_empty()={el.is_empty()}")
    pk = el.peek_first()
    exp = _ref_min(ref)
    if pk is not exp:
        return rt.fail("C01:peek", lambda: f"{where}: peek_first()={pk} expected {exp}")
    return True


def script(ts, ps, ks):
    el = EventListHeap()
    evs = []      # all events created, creation order
    ref = []      # pending events (reference)
    nxt = 0
    ki = 0
    for _ in range(N):
        e = SimEvent(_time(ts[nxt]), _TARGET, "m", ps[nxt])
        nxt += 1
        evs.append(e)
        el.add(e)
        ref.append(e)
    if not _observe(el, ref, "build"):
        return False
    step = 0
    for op in SCRIPT:
        step += 1
        where = f"op#{step}={op}"
        if op == "A":
            e = SimEvent(_time(ts[nxt]), _TARGET, "m", ps[nxt])
            nxt += 1
            evs.append(e)
            el.add(e)
            ref.append(e)
        elif op == "R":
            if ks[ki] >= len(evs):
                return True       # index of an event not created yet: not a case
            e = evs[ks[ki]]
            ki += 1
            i = _idx(ref, e)
            r = el.remove(e)
            if r is not (i >= 0):
                return rt.fail("C01:remove-return", lambda: f"{where}: remove returned {r}, pending={i >= 0}")
            if i >= 0:
                del ref[i]
        elif op == "C":
            if ks[ki] >= len(evs):
                return True
            e = evs[ks[ki]]
            ki += 1
            r = el.contains(e)
            if r is not (_idx(ref, e) >= 0):
                return rt.fail("C01:contains", lambda: f"{where}: contains returned {r}")
        elif op == "P":
            exp = _ref_min(ref)
            r = el.pop_first()
            if r is not exp:
                return rt.fail("C01:pop-order", lambda: f"{where}: pop_first()={r} expected {exp}")
            if exp is not None:
                del ref[_idx(ref, exp)]
        elif op == "K":
            pass      # peek is observed after every op
        elif op == "X":
            el.clear()
            ref = []
        else:
            raise RuntimeError("bad op " + op)
        if not _observe(el, ref, where):
            return False
    # full drain
    while ref:
        exp = _ref_min(ref)
        r = el.pop_first()
        if r is not exp:
            return rt.fail("C01:drain-order", lambda: f"drain: pop_first()={r} expected {exp}; still pending {ref}")
        del ref[_idx(ref, exp)]
    if el.pop_first() is not None or el.peek_first() is not None or not el.is_empty():
        return rt.fail("C01:drain-extra", "list not empty after draining the reference set")
    return True


def h_script(ts: List[int], ps: List[int], ks: List[int]) -> bool:
    """
    pre: len(ts) == NEV and len(ps) == NEV and len(ks) == NK
    pre: all(0 <= t <= TMAX for t in ts)
    pre: all(1 <= p <= 3 for p in ps)
    pre: all(0 <= k < NEV for k in ks)
    pre: FIXK < 0 or NK == 0 or ks[0] == FIXK
    pre: HEAPPRE == 0 or all(ts[(i - 1) // 2] <= ts[i] and ps[i] == 2 for i in range(1, N))
    pre: SPLIT12 < 0 or (SPLIT12 == 0 and ts[1] < ts[2]) or (SPLIT12 == 1 and ts[1] == ts[2]) or (SPLIT12 == 2 and ts[1] > ts[2])
    post: _
    """
    return script(ts, ps, ks)


def _cmp_ok(a, b, c):
    """Order axioms of the rich comparisons on three events."""
    lt, le, gt, ge, eq, ne = a < b, a <= b, a > b, a >= b, a == b, a != b
    bef = _before(a, b)
    aft = _before(b, a)
    if lt is not bef or gt is not aft:
        return rt.fail("C01:cmp-agree", lambda: f"{a} < {b} = {lt}, key order says {bef}")
    if eq is not (not bef and not aft) or ne is not (not eq):
        return rt.fail("C01:cmp-eq", lambda: f"{a} == {b} = {eq}")
    if le is not (lt or eq) or ge is not (gt or eq):
        return rt.fail("C01:cmp-le-ge", lambda: f"{a} <= {b} = {le}")
    if (a < b) and (b < c) and not (a < c):
        return rt.fail("C01:cmp-transitive", lambda: f"{a} < {b} < {c} but not a < c")
    if a < a or not (a == a) or not (a <= a):
        return rt.fail("C01:cmp-irreflexive", lambda: f"{a}")
    return True


def h_cmp(ts: List[int], ps: List[int], order: int) -> bool:
    """
    pre: len(ts) == 3 and len(ps) == 3
    pre: all(0 <= t <= TMAX for t in ts)
    pre: all(1 <= p <= 10 for p in ps)
    pre: 0 <= order < 6
    post: _
    """
    evs = [SimEvent(_time(ts[i]), _TARGET, "m", ps[i]) for i in range(3)]
    perm = [(0, 1, 2), (0, 2, 1), (1, 0, 2), (1, 2, 0), (2, 0, 1), (2, 1, 0)][order]
    a, b, c = evs[perm[0]], evs[perm[1]], evs[perm[2]]
    if not _cmp_ok(a, b, c):
        return False
    # the comparison order is the pop order
    el = EventListHeap()
    for e in evs:
        el.add(e)
    x, y, z = el.pop_first(), el.pop_first(), el.pop_first()
    if not (x < y and y < z and x < z):
        return rt.fail("C01:cmp-pop", lambda: f"pop order {x},{y},{z} disagrees with <")
    return True
