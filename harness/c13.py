"""C13 - seed updates depend only on stream name, seed and replication number.

Engine A.  The per-process quantity a test can never vary - the built-in hash() of a str - is
made an explicit symbolic environment: the name `hash` is injected into the globals of
pydsol.core.streams as a function backed by a symbolic table, and every update is executed
under TWO independent hash environments (and two listing orders of the streams) inside one
path.  Replay uses real child interpreters with different PYTHONHASHSEED values.
"""
import json
import os
import subprocess
import sys
from typing import List

import pydsol.core.streams as streams
from pydsol.core.streams import MersenneTwister, SimpleStreamUpdater, StreamSeedUpdater
from vf import rt

NS = rt.envint("VF_NS", 2)        # number of streams
TABMAX = rt.envint("VF_TABMAX", 2)
FIXLISTED = rt.envstr("VF_LISTED", "")      # split: which streams have a seed list, e.g. "10"

if rt.MODE == "symbolic":
    # random.Random.seed is C code and would concretise every symbolic seed: model generator
    from harness import rngstub
    rngstub.install([])


# stream names come from a pool selected by symbolic indices: a symbolic str used as a dict key is
# concretised by the symbolic executor when it is hashed, one string per path, never exhaustively
NAMES = ["default", "", "a", "b", "ab", "ba", "Aa", "BB"]     # "Aa"/"BB" collide under Java's hashCode


class HashEnv:
    """arbitrary function of the string, per process: equal strings => equal hash inside one env"""

    def __init__(self, values):
        self.values = values
        self.seen = []

    def __call__(self, s):
        if not isinstance(s, str):
            return 0
        for k, (name, _) in enumerate(self.seen):
            if name == s:
                return self.seen[k][1]
        v = self.values[len(self.seen) % len(self.values)]
        self.seen.append((s, v))
        return v


def _simple_seeds(names, seeds, r, order, henv):
    """seeds after SimpleStreamUpdater.update_seeds under hash environment henv"""
    if henv is not None:
        streams.__dict__["hash"] = henv
    try:
        d = {}
        objs = {}
        for i in order:
            st = MersenneTwister(seeds[i])
            d[names[i]] = st
            objs[i] = st
        SimpleStreamUpdater().update_seeds(d, r)
        return [d[names[i]].seed() for i in range(len(names))]
    finally:
        streams.__dict__.pop("hash", None)


_CHILD = r'''
import json, sys
from pydsol.core.streams import MersenneTwister, SimpleStreamUpdater
names, seeds, r, order = json.loads(sys.argv[1])
d = {}
for i in order:
    d[names[i]] = MersenneTwister(seeds[i])
SimpleStreamUpdater().update_seeds(d, r)
print(json.dumps([[d[n].seed(), d[n].next_float().hex()] for n in names]))
'''


def _child(names, seeds, r, order, hashseed):
    env = dict(os.environ)
    env["PYTHONHASHSEED"] = str(hashseed)
    p = subprocess.run([sys.executable, "-c", _CHILD, json.dumps([names, seeds, r, order])],
                       env=env, capture_output=True, text=True, timeout=60)
    return p.stdout.strip()


def h_simple(nidx: List[int], seeds: List[int], r: int, h1: List[int], h2: List[int], flip: bool) -> bool:
    """
    pre: len(nidx) == NS and len(seeds) == NS
    pre: all(0 <= n < len(NAMES) for n in nidx)
    pre: len(set(nidx)) == NS
    pre: 0 <= r <= 1000
    pre: len(h1) == NS and len(h2) == NS
    post: _
    """
    names = [NAMES[i] for i in nidx]
    order1 = list(range(NS))
    order2 = list(reversed(order1)) if flip else order1
    if rt.MODE == "replay":
        outs = {_child(names, seeds, r, o, hs) for o in (order1, order2) for hs in (1, 2, 77)}
        if len(outs) != 1:
            return rt.fail("C13:seed-depends-on-process-or-order",
                           lambda: f"names {names} seeds {seeds} r={r}: (seed, first draw) per process/order: {sorted(outs)}")
        return True
    a = _simple_seeds(names, seeds, r, order1, HashEnv(h1))
    b = _simple_seeds(names, seeds, r, order2, HashEnv(h2))
    if a != b:
        return rt.fail("C13:seed-depends-on-process-or-order", lambda: f"{a} vs {b}")
    return True


def h_reuse(nidx: List[int], seeds: List[int], r1: int, r2: int) -> bool:
    """
    pre: len(nidx) == 2 and len(seeds) == 2
    pre: all(0 <= n < len(NAMES) for n in nidx) and nidx[0] != nidx[1]
    pre: 0 <= r1 <= 50 and 0 <= r2 <= 50
    post: _
    """
    # ONE updater instance serves two configurations in which the same generator objects appear under
    # swapped names; the seeds of the second configuration must equal those of a fresh updater and
    # fresh generators (the seed depends only on name, original seed and replication number)
    names = [NAMES[i] for i in nidx]
    upd = SimpleStreamUpdater()
    s0, s1 = MersenneTwister(seeds[0]), MersenneTwister(seeds[1])
    upd.update_seeds({names[0]: s0, names[1]: s1}, r1)
    upd.update_seeds({names[1]: s0, names[0]: s1}, r2)
    f0, f1 = MersenneTwister(seeds[0]), MersenneTwister(seeds[1])
    SimpleStreamUpdater().update_seeds({names[1]: f0, names[0]: f1}, r2)
    if s0.seed() != f0.seed() or s1.seed() != f1.seed():
        return rt.fail("C13:seed-depends-on-updater-history",
                       lambda: f"names {names} seeds {seeds} r1={r1} r2={r2}: {s0.seed()},{s1.seed()} fresh {f0.seed()},{f1.seed()}")
    return True


def h_simple_refuse(ni: int, seed: int, r: int) -> bool:
    """
    pre: 0 <= ni < len(NAMES)
    pre: r < 0
    post: _
    """
    name = NAMES[ni]
    st = MersenneTwister(seed)
    try:
        SimpleStreamUpdater().update_seeds({name: st}, r)
    except ValueError:
        if st.seed() != seed:
            return rt.fail("C13:refused-update-changed-seed", lambda: f"{st.seed()} != {seed}")
        return True
    return rt.fail("C13:negative-replication-accepted", lambda: f"r={r}")


def h_table(nidx: List[int], seeds: List[int], tab0: List[int], tab1: List[int], listed: List[bool],
            r: int, flip: bool) -> bool:
    """
    pre: len(nidx) == 2 and len(seeds) == 2 and len(listed) == 2
    pre: all(0 <= n < 4 for n in nidx) and nidx[0] != nidx[1]
    pre: len(tab0) <= TABMAX and len(tab1) <= TABMAX
    pre: -1 <= r <= TABMAX + 1
    pre: not flip
    pre: all(listed[i] == (FIXLISTED[i] == "1") for i in range(len(FIXLISTED)))
    post: _
    """
    names = [NAMES[i] for i in nidx]
    tabs = [tab0, tab1]
    table = {}
    for i in range(2):
        if listed[i]:
            table[names[i]] = tabs[i]
    upd = StreamSeedUpdater(table)
    order = [1, 0] if flip else [0, 1]
    for i in order:
        st = MersenneTwister(seeds[i])
        try:
            upd.update_seed(names[i], st, r)
        except ValueError:
            if r >= 0 and not (listed[i] and r >= len(tabs[i])):
                return rt.fail("C13:valid-update-refused", lambda: f"stream {names[i]!r} r={r} listed={listed[i]} table {tabs[i]}")
            if st.seed() != seeds[i]:
                return rt.fail("C13:refused-update-changed-seed", lambda: f"{st.seed()} != {seeds[i]}")
            continue
        except Exception as e:      # noqa
            return rt.fail("C13:update-raised-" + type(e).__name__, lambda: f"stream {names[i]!r} r={r} listed={listed[i]}: {e!r}")
        if r < 0 or (listed[i] and r >= len(tabs[i])):
            return rt.fail("C13:invalid-replication-accepted", lambda: f"stream {names[i]!r} r={r} table {tabs[i]}")
        if listed[i]:
            if st.seed() != tabs[i][r]:
                return rt.fail("C13:listed-stream-wrong-seed", lambda: f"{st.seed()} != {tabs[i][r]}")
        else:
            twin = MersenneTwister(seeds[i])
            SimpleStreamUpdater().update_seed(names[i], twin, r)
            if st.seed() != twin.seed():
                return rt.fail("C13:unlisted-stream-not-served-by-fallback", lambda: f"{st.seed()} != {twin.seed()}")
    return True


def h_illtyped(ni: int, seed: int, code: int, use_table: bool) -> bool:
    """
    pre: 0 <= ni < len(NAMES)
    pre: 0 <= code <= 3
    post: _
    """
    name = NAMES[ni]
    r = [None, 1.5, "1", [1]][code]
    st = MersenneTwister(seed)
    upd = StreamSeedUpdater({name: [1, 2, 3]}) if use_table else SimpleStreamUpdater()
    for call in (lambda: upd.update_seeds({name: st}, r), lambda: upd.update_seed(name, st, r)):
        try:
            call()
        except (TypeError, ValueError):
            if st.seed() != seed:
                return rt.fail("C13:refused-update-changed-seed", lambda: f"{st.seed()} != {seed}")
            continue
        return rt.fail("C13:ill-typed-replication-accepted", lambda: f"r={r!r}")
    return True


def h_draws(ni: int, seed: int, tab: List[int], listed: bool, r: int, k: int, twice: bool, us: List[float]) -> bool:
    """
    pre: 0 <= ni < 4
    pre: 1 <= len(tab) <= TABMAX
    pre: 0 <= r <= TABMAX
    pre: 0 <= k <= 2
    pre: len(us) == 6 and all(0.0 <= u < 1.0 for u in us)
    post: _
    """
    # "...draws the same random numbers on every run": after an accepted update the stream continues exactly like a
    # brand-new stream created with the installed seed - whatever it drew before, also when the installed seed
    # equals the seed it already had (the same replication run twice, equal entries in a seed list)
    name = NAMES[ni]
    if rt.MODE == "symbolic":
        rngstub.install(us)
    st = MersenneTwister(seed)
    for _ in range(k):
        st.next_float()
    upd = StreamSeedUpdater({name: tab}) if listed else SimpleStreamUpdater()
    try:
        upd.update_seed(name, st, r)
        if twice:
            st.next_float()
            upd.update_seed(name, st, r)
    except ValueError:
        return True           # refusals are the subject of the other conditions
    fresh = MersenneTwister(st.seed())
    for n in range(2):
        a, b = st.next_float(), fresh.next_float()
        if a != b:
            return rt.fail("C13:updated-stream-does-not-restart-at-the-installed-seed",
                           lambda: f"stream {name!r} seed {seed} table {tab if listed else None} r={r} after {k} draws"
                                   f"{' (updated twice)' if twice else ''}: draw {n} = {a}, a new stream with seed {st.seed()} gives {b}")
    return True
