"""Model of random.Random for symbolic runs (the Mersenne Twister itself is C code: trusted, not
encoded).  Deterministic automaton: seed(s) selects a sequence keyed by abs(s) (CPython takes
the absolute value of int seeds), random() returns the next element of that sequence,
getstate()/setstate() round-trip (key, position).  The elements are symbolic doubles in [0,1)
handed out from a pool supplied by the harness: the same (key, position) always yields the
same value, different (key, position) pairs yield independent values.
"""


class Pool:
    def __init__(self, values):
        self.values = values
        self.assigned = []     # ((key, idx), value)
        self.exhausted = False

    def get(self, key, idx):
        for (k, i), v in self.assigned:
            if i == idx and k == key:
                return v
        if len(self.assigned) >= len(self.values):
            self.exhausted = True
            return 0.25
        v = self.values[len(self.assigned)]
        self.assigned.append(((key, idx), v))
        return v


POOL = Pool([])
CALLS = []     # log of (instance id, operation) for independence checks


class ModelRandom:
    _count = 0

    def __init__(self, x=None):
        ModelRandom._count += 1
        self.uid = ModelRandom._count
        self._key = None
        self._idx = 0
        if x is not None:
            self.seed(x)

    def seed(self, s=None):
        self._key = s if s >= 0 else -s
        self._idx = 0

    def random(self):
        v = POOL.get(self._key, self._idx)
        self._idx += 1
        CALLS.append((self.uid, "random"))
        return v

    # the rest of the public generator API a stream wrapper may use: one pool value per call
    def getrandbits(self, k):
        return int(self.random() * (1 << k))

    def randrange(self, a, b=None):
        a, b = (0, a) if b is None else (a, b)
        return a + int(self.random() * (b - a))

    def randint(self, a, b):
        return self.randrange(a, b + 1)

    def uniform(self, a, b):
        return a + (b - a) * self.random()

    def getstate(self):
        return (self._key, self._idx)

    def setstate(self, st):
        self._key, self._idx = st


def install(values):
    import pydsol.core.streams as streams
    global POOL
    POOL = Pool(values)
    del CALLS[:]
    streams.Random = ModelRandom
    return POOL
