"""Table-driven model programs shared by the simulator harnesses (C02, C03, C05, ...).

A program is a table of K event slots.  Slot i: kind (0 absolute time, 1 relative delay,
2 now), val (time or delay, in clock units; may be illegal), prio, parent (-1: scheduled
from construct_model, else scheduled by the handler of slot `parent`), cancel (-1 none,
else the slot whose event the handler cancels after scheduling its children) and fail
(the handler raises after doing its work).  The handler of slot i records (clock, i).

`Ref` is the reference semantics, written only from the property text: a multiset of
pending (time, prio, seq) executed in (time, higher priority, scheduling order) order.
"""
import os

from pydsol.core.experiment import SingleReplication
from pydsol.core.model import DSOLModel
from pydsol.core.simulator import (DEVSSimulatorFloat, DEVSSimulatorInt, DEVSSimulatorDuration,
                                   ErrorStrategy, RunState, ReplicationState)
from pydsol.core.utils import DSOLError
from vf import rt

CLOCK = rt.envstr("VF_CLOCK", "int")
PRIOS = [1, 5, 10]

if rt.MODE == "symbolic":
    from vf import simstubs
    simstubs.install()

NAN = float("nan")


def conv(v):
    """clock value of the small int v (VF_CLOCK decides the representation)."""
    if CLOCK == "int":
        return v
    if CLOCK == "float":
        return v / 2
    from pydsol.core.units import Duration
    return Duration(v * 0.5)


def special(v, code):
    """code 1 -> nan, 2 -> +inf request times/delays (float and Duration clocks)."""
    if code == 1:
        if CLOCK == "duration":
            from pydsol.core.units import Duration
            return Duration(NAN)
        return NAN
    if code == 2:
        if CLOCK == "duration":
            from pydsol.core.units import Duration
            return Duration(float("inf"))
        return float("inf")
    return conv(v)


def make_sim(name="sim"):
    if CLOCK == "int":
        return DEVSSimulatorInt(name)
    if CLOCK == "float":
        return DEVSSimulatorFloat(name)
    return DEVSSimulatorDuration(name)


def isnan(x):
    return x != x


# VF_FAULTBASE=1 (replay mode only: the symbolic executor steers with BaseException subclasses, so the bare except of
# SimEvent.execute is narrowed there): the planned fault is a BaseException-only type, like SystemExit / KeyboardInterrupt
class HandlerFault(BaseException if (rt.MODE == "replay" and os.environ.get("VF_FAULTBASE") == "1") else Exception):
    pass


class TableModel(DSOLModel):
    def __init__(self, sim, kinds, vals, prios, parents, cancels, specials=None, fails=None,
                 on_exec=None):
        super().__init__(sim)
        self.kinds, self.vals, self.prios = kinds, vals, prios
        self.parents, self.cancels = parents, cancels
        self.specials = specials
        self.fails = fails
        self.K = len(kinds)
        self.on_exec = on_exec
        self.reset_logs()

    def reset_logs(self):
        self.trace = []          # (clock, slot)
        self.requests = []       # (slot, accepted: bool)
        self.bad = []            # unexpected exception types / pending-set changes
        self.events = [None] * self.K

    def construct_model(self):
        self.events = [None] * self.K
        for j in range(self.K):
            if self.parents[j] < 0:
                self._request(j)

    def _request(self, j):
        sim = self.simulator
        before = sim.eventlist().size()
        v = self.vals[j]
        val = special(v, self.specials[j]) if self.specials is not None else conv(v)
        ev = None
        try:
            if self.kinds[j] == 0:
                ev = sim.schedule_event_abs(val, self, "fire", PRIOS[self.prios[j]], i=j)
            elif self.kinds[j] == 1:
                ev = sim.schedule_event_rel(val, self, "fire", PRIOS[self.prios[j]], i=j)
            else:
                ev = sim.schedule_event_now(self, "fire", PRIOS[self.prios[j]], i=j)
        except DSOLError:
            if sim.eventlist().size() != before:
                self.bad.append(("refused-but-changed", j))
        except Exception as e:      # noqa: only Exception - never swallow the tracer's control flow
            self.bad.append(("wrong-exception:" + type(e).__name__, j))
        self.events[j] = ev
        self.requests.append((j, ev is not None))

    def fire(self, i):
        self.trace.append((self.simulator.simulator_time, i))
        if self.on_exec is not None:
            self.on_exec(self, i)
        for j in range(self.K):
            if self.parents[j] == i:
                self._request(j)
        c = self.cancels[i]
        if c >= 0 and self.events[c] is not None:
            self.simulator.cancel_event(self.events[c])
        if self.fails is not None and self.fails[i]:
            raise HandlerFault(f"slot {i}")


class Ref:
    """Reference semantics of a table program."""

    def __init__(self, kinds, vals, prios, parents, cancels, specials=None, start=0, warmup=None):
        self.kinds, self.vals, self.prios = kinds, vals, prios
        self.parents, self.cancels, self.specials = parents, cancels, specials
        self.K = len(kinds)
        self.clock = conv(start)
        self.pending = []        # [time, prio, seq, slot]
        self.seq = 0
        self.requests = []       # (slot, accepted)
        self.entry = [None] * self.K
        self.trace = []
        for j in range(self.K):
            if parents[j] < 0:
                self.request(j)
        if warmup is not None:
            # the simulator schedules the warm-up after construct_model, maximum priority;
            # it is an ordinary event for step() and the notification stream (slot -1)
            self.seq += 1
            self.pending.append([conv(warmup), 10, self.seq, -1])

    def request(self, j):
        v = self.vals[j]
        val = special(v, self.specials[j]) if self.specials is not None else conv(v)
        ok = True
        if self.kinds[j] == 0:
            t = val
            if isnan(t) or t < self.clock:
                ok = False
        elif self.kinds[j] == 1:
            if isnan(val) or val < conv(0):
                ok = False
            else:
                t = self.clock + val
        else:
            t = self.clock
        self.requests.append((j, ok))
        if ok:
            self.seq += 1
            ent = [t, PRIOS[self.prios[j]], self.seq, j]
            self.pending.append(ent)
            self.entry[j] = ent
        else:
            self.entry[j] = None

    def next_index(self):
        best = -1
        for n, e in enumerate(self.pending):
            if best < 0:
                best = n
                continue
            b = self.pending[best]
            if e[0] < b[0] or (e[0] == b[0] and (e[1] > b[1] or (e[1] == b[1] and e[2] < b[2]))):
                best = n
        return best

    def peek_time(self):
        n = self.next_index()
        return None if n < 0 else self.pending[n][0]

    def step(self):
        """execute the next pending event; returns its slot"""
        n = self.next_index()
        t, p, s, i = self.pending.pop(n)
        self.clock = t
        if i < 0:
            self.warmups = getattr(self, "warmups", 0) + 1
            return i
        self.trace.append((t, i))
        for j in range(self.K):
            if self.parents[j] == i:
                self.request(j)
        c = self.cancels[i]
        if c >= 0 and self.entry[c] is not None:
            ent = self.entry[c]
            for m, e in enumerate(self.pending):
                if e is ent:
                    del self.pending[m]
                    break
        return i

    def run(self, bound, including=True):
        """execute everything with time < bound (<= bound when including)."""
        while True:
            t = self.peek_time()
            if t is None or t > bound or (t == bound and not including):
                return
            self.step()


def settle(sim):
    """wait for the run thread in replay mode; no-op with the inline worker."""
    if rt.MODE != "symbolic":
        from vf import simstubs
        simstubs.quiesce(sim)


def quiet(f, *a, **kw):
    """call f; output of the code under test is discarded process-wide by vf.replay / the worker."""
    return f(*a, **kw)
