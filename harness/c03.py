"""C03 - run horizon: bounded runs execute exactly the events up to the bound and compose.

Engine A + inline worker.  Program skeleton fixed per condition (VF_KINDS / VF_PARENTS, no
cancellations), symbolic: event times/delays, priorities, replication length `end`, warm-up
time, and a segmentation of S commands (VF_S):
   cmd 0 run_up_to(b)   1 run_up_to_including(b)   2 step()   3 start() paused by a stop()
   issued from the handler of the b-th event executed in that segment
   4 / 5 run_up_to(b) / run_up_to_including(b) paused by a stop() issued from the handler of the
   first event the bounded run executes
followed by a final start() while the simulator is still resumable.
Oracle (only what the property states):
 * a bounded run executes exactly the reference events with time < b (<= b inclusive),
   never anything later than `end`, leaves the clock at min(b, end);
 * with b < end the simulator stays resumable (not ENDED, no END_REPLICATION yet);
 * a bound before the clock: the clock must not move backwards (refusal is accepted);
 * a step executes exactly the next pending event (the warm-up counts) unless it lies after
   `end`, in which case nothing later than `end` may run;
 * the concatenated trace and the final clock equal those of one uninterrupted start().
   (exclusive bounds b >= end are left out of this last comparison: the sentence "executes
   exactly the events earlier than t" and "the bound reached the end" leave events at t == end
   unexecuted by design.)
"""
from typing import List

from harness.simmodel import (TableModel, Ref, make_sim, conv, settle, quiet, SingleReplication,
                              RunState, ReplicationState, DSOLError)
from pydsol.core.interfaces import ReplicationInterface
from pydsol.core.pubsub import EventListener
from vf import rt

KINDS = [int(c) for c in rt.envstr("VF_KINDS", "001")]
PARENTS = [int(x) for x in rt.envstr("VF_PARENTS", "-1,-1,0").split(",")]
K = len(KINDS)
S = rt.envint("VF_S", 2)
VMAX = rt.envint("VF_VMAX", 4)
FIXCMD = [int(c) for c in rt.envstr("VF_FIXCMD", "")]      # split: fix the command kinds
FIXWARM = rt.envint("VF_WARM", -1)        # >= 0: warm-up time fixed (it only matters to step())
PRIOSYM = rt.envint("VF_PRIOSYM", 1)      # 0: all priorities equal


class EndSpy(EventListener):
    def __init__(self):
        self.ends = 0

    def notify(self, event):
        self.ends += 1


def segmented(vals, prios, end, warm, cmds, bounds):
    sim = make_sim()
    pause = {"at": -1, "count": 0}

    def on_exec(model, i):
        pause["count"] += 1
        if pause["count"] == pause["at"]:
            quiet(sim.stop)

    cancels = [-1] * K
    model = TableModel(sim, KINDS, vals, prios, PARENTS, cancels, on_exec=on_exec)
    rep = SingleReplication("rep", conv(0), conv(warm), conv(end))
    quiet(sim.initialize, model, rep)
    spy = EndSpy()
    sim.add_listener(ReplicationInterface.END_REPLICATION_EVENT, spy)
    ref = Ref(KINDS, vals, prios, PARENTS, cancels, warmup=warm)
    ENDT = conv(end)
    comparable = True
    for n in range(S):
        cmd, b = cmds[n], bounds[n]
        ended = sim.run_state == RunState.ENDED
        before_clock = sim.simulator_time
        before_len = len(model.trace)
        where = f"segment {n}: cmd {cmd} arg {b}"
        if cmd in (0, 1, 4, 5):
            paused_run = cmd >= 4          # 4/5: the bounded run is paused by a stop() issued from
            cmd = cmd - 4 if paused_run else cmd   # the handler of the first event it executes
            B = conv(b)
            refused = False
            if paused_run:
                pause["at"] = pause["count"] + 1
            try:
                if cmd == 0:
                    quiet(sim.run_up_to, B)
                else:
                    quiet(sim.run_up_to_including, B)
            except DSOLError:
                refused = True
            settle(sim)
            pause["at"] = -1
            if ended:
                if not refused:
                    return rt.fail("C03:command-after-end-accepted", lambda: where)
                continue
            if sim.simulator_time < before_clock:
                return rt.fail("C03:clock-moved-backwards", lambda: f"{where}: clock {before_clock} -> {sim.simulator_time}")
            if B < before_clock:
                if len(model.trace) != before_len:
                    return rt.fail("C03:bound-before-clock-executed", lambda: where)
                continue
            if refused:
                return rt.fail("C03:bounded-run-refused", lambda: where)
            if cmd == 0 and B >= ENDT:
                comparable = False
            eff = B if B < ENDT else ENDT
            if paused_run:
                hit = False
                while True:
                    t = ref.peek_time()
                    if t is None or t > eff or (t == eff and not ((cmd == 1) or B > ENDT)):
                        break
                    if ref.step() >= 0:
                        hit = True
                        break
                if hit:
                    if sim.simulator_time != ref.clock:
                        return rt.fail("C03:pause-clock", lambda: f"{where}: clock {sim.simulator_time} expected {ref.clock}")
                    if sim.run_state != RunState.STOPPED or sim.replication_state != ReplicationState.STARTED or spy.ends != 0:
                        return rt.fail("C03:not-resumable-after-pause",
                                       lambda: f"{where}: {sim.run_state} {sim.replication_state} END fired {spy.ends}x")
                    if len(model.trace) != len(ref.trace):
                        return rt.fail("C03:segment-trace", lambda: f"{where}: executed {model.trace} expected {ref.trace}")
                    continue
            else:
                ref.run(eff, (cmd == 1) or B > ENDT)
            if sim.simulator_time != eff and sim.simulator_time != B:
                return rt.fail("C03:clock-not-at-bound", lambda: f"{where}: clock {sim.simulator_time} expected {eff}")
            if B < ENDT and (sim.run_state != RunState.STOPPED or sim.replication_state != ReplicationState.STARTED
                             or spy.ends != 0):
                return rt.fail("C03:not-resumable-after-bounded-run",
                               lambda: f"{where}: {sim.run_state} {sim.replication_state} END fired {spy.ends}x")
        elif cmd == 2:
            refused = False
            try:
                quiet(sim.step)
            except DSOLError:
                refused = True
            settle(sim)
            if ended:
                if not refused:
                    return rt.fail("C03:command-after-end-accepted", lambda: where)
                continue
            t = ref.peek_time()
            if t is not None and t <= ENDT:
                ref.step()
                if refused:
                    return rt.fail("C03:step-refused", lambda: where)
                if sim.simulator_time != t:
                    return rt.fail("C03:step-clock", lambda: f"{where}: clock {sim.simulator_time} expected {t}")
            # else: nothing may run (checked by the trace comparison below)
        else:
            if b < 1:
                continue
            pause["at"] = pause["count"] + b
            refused = False
            try:
                quiet(sim.start)
            except DSOLError:
                refused = True
            settle(sim)
            pause["at"] = -1
            if ended:
                if not refused:
                    return rt.fail("C03:command-after-end-accepted", lambda: where)
                continue
            if refused:
                return rt.fail("C03:start-refused", lambda: where)
            done = 0
            while done < b:
                t = ref.peek_time()
                if t is None or t > ENDT:
                    break
                if ref.step() >= 0:
                    done += 1
            if done < b:
                ref.run(ENDT, True)
        # after every segment: executed so far == reference so far, nothing after `end`
        if len(model.trace) != len(ref.trace):
            return rt.fail("C03:segment-trace", lambda: f"{where}: executed {model.trace} expected {ref.trace}")
        for m in range(len(ref.trace)):
            if model.trace[m][1] != ref.trace[m][1] or model.trace[m][0] != ref.trace[m][0]:
                return rt.fail("C03:segment-trace", lambda: f"{where}: executed {model.trace} expected {ref.trace}")
        if len(model.trace) > 0 and model.trace[-1][0] > ENDT:
            return rt.fail("C03:event-after-end", lambda: f"{where}: {model.trace}")
    # final start while resumable
    if sim.run_state != RunState.ENDED:
        try:
            quiet(sim.start)
        except DSOLError:
            return rt.fail("C03:final-start-refused", lambda: f"{sim.run_state} {sim.replication_state} t={sim.simulator_time}")
        settle(sim)
        ref.run(ENDT, True)
    if not comparable:
        return True
    if len(model.trace) != len(ref.trace):
        return rt.fail("C03:composed-trace", lambda: f"executed {model.trace} expected {ref.trace}")
    for m in range(len(ref.trace)):
        if model.trace[m][1] != ref.trace[m][1] or model.trace[m][0] != ref.trace[m][0]:
            return rt.fail("C03:composed-trace", lambda: f"executed {model.trace} expected {ref.trace}")
    if sim.simulator_time != ENDT:
        return rt.fail("C03:final-clock", lambda: f"{sim.simulator_time} expected {ENDT}")
    if sim.run_state != RunState.ENDED or sim.replication_state != ReplicationState.ENDED or spy.ends != 1:
        return rt.fail("C03:final-state", lambda: f"{sim.run_state} {sim.replication_state} END fired {spy.ends}x")
    return True


def h_seg(vals: List[int], prios: List[int], end: int, warm: int, cmds: List[int], bounds: List[int]) -> bool:
    """
    pre: len(vals) == K and len(prios) == K and len(cmds) == S and len(bounds) == S
    pre: all(0 <= v <= VMAX for v in vals)
    pre: all(0 <= p <= 2 * PRIOSYM for p in prios)
    pre: 1 <= end <= VMAX + 1 and 0 <= warm <= end
    pre: FIXWARM < 0 or warm == FIXWARM
    pre: all(0 <= c <= 5 for c in cmds)
    pre: all(0 <= b <= VMAX + 2 for b in bounds)
    pre: all(cmds[i] == FIXCMD[i] for i in range(len(FIXCMD)))
    post: _
    """
    return segmented(vals, prios, end, warm, cmds, bounds)
