"""C17 - unit conversion is faithful for every declared unit.  Replay functions (real code)."""
import math

import pydsol.core.units as U
from vf import rt


def r_unit(qn, unit, x, unit2) -> bool:
    Q = getattr(U, qn)
    f = Q._units[unit]
    x = float(x)
    try:
        q = Q(x, unit)
    except Exception as e:      # noqa
        return rt.fail(f"C17:constructor-raised-{type(e).__name__}", f"{qn}({x}, {unit!r}): {e!r}")
    if q.si != x * f:
        return rt.fail("C17:si-value", f"{qn}({x}, {unit!r}).si = {q.si}, value*factor = {x * f}")
    if q.unit != unit:
        return rt.fail("C17:unit", f"{qn}({x}, {unit!r}).unit = {q.unit!r}")
    if not math.isclose(q.displayvalue, x, rel_tol=1e-12, abs_tol=1e-300):
        return rt.fail("C17:displayvalue", f"{qn}({x}, {unit!r}).displayvalue = {q.displayvalue}")
    r = q.as_unit(unit2)
    if r.si.hex() != q.si.hex() or r.unit != unit2 or type(r) is not Q:
        return rt.fail("C17:as_unit-changes-si", f"{qn}({x}, {unit!r}).as_unit({unit2!r}): si {q.si!r} -> {r.si!r}, unit {r.unit!r}")
    for name, got, exp in (("neg", -q, -q.si), ("abs", abs(q), abs(q.si))):
        if type(got) is not Q or got.si != exp or got.unit != unit:
            return rt.fail(f"C17:{name}", f"{name}({q!r}) = {got!r} si {got.si} unit {got.unit}")
    # through the base unit into `unit` and on into an alias spelling / the next unit: SI value bit-identical
    base = Q(x)
    chain = base.as_unit(unit).as_unit(unit2)
    if chain.si.hex() != base.si.hex():
        return rt.fail("C17:as_unit-changes-si", f"{qn}({x}).as_unit({unit!r}).as_unit({unit2!r}): si {base.si!r} -> {chain.si!r}")
    other = Q(1.25, unit2)
    for name, got, exp in (("add", q + other, q.si + other.si), ("sub", q - other, q.si - other.si),
                           ("add-zero-left", Q(0.0, unit) + other, other.si), ("sub-zero-left", Q(0.0, unit) - other, -other.si)):
        if type(got) is not Q or got.si != exp or got.unit != unit:
            return rt.fail(f"C17:{name}-unit-or-value", f"{qn}: {name} of ({x},{unit!r}) and (1.25,{unit2!r}) = {got.si} {got.unit!r}, expected {exp} {unit!r}")
    try:
        text = str(q)
    except Exception as e:      # noqa
        return rt.fail(f"C17:str-raised-{type(e).__name__}", f"str({qn}({x}, {unit!r})): {e!r}")
    if not isinstance(text, str) or not text:
        return rt.fail("C17:str", f"{text!r}")
    return True


def r_tables(qn) -> bool:
    Q = getattr(U, qn)
    if Q._units.get(Q._baseunit) != 1.0:
        return rt.fail("C17:base-unit-factor-not-one", f"{qn}: {Q._baseunit!r} -> {Q._units.get(Q._baseunit)}")
    for u, f in Q._units.items():
        if u not in Q._descriptions or not isinstance(Q._descriptions[u], str) or not Q._descriptions[u]:
            return rt.fail("C17:unit-without-description", f"{qn} {u!r}")
        if not isinstance(f, (int, float)) or not (f > 0) or math.isinf(f):
            return rt.fail("C17:unit-factor-not-a-positive-number", f"{qn} {u!r}: {f!r}")
        d = Q._displayunits.get(u, u)
        if not isinstance(d, str):
            return rt.fail("C17:display-unit-not-a-string", f"{qn} {u!r}: {d!r}")
    by_desc = {}
    for u, d in Q._descriptions.items():
        if u in Q._units:
            by_desc.setdefault(d, []).append(u)
    for d, us in by_desc.items():
        fs = {Q._units[u] for u in us}
        if len(fs) > 1:
            return rt.fail("C17:alias-spellings-with-different-factors", f"{qn} {d!r}: { {u: Q._units[u] for u in us} }")
    return True


def r_all() -> bool:
    missing = [n for n in U.__all__ if not hasattr(U, n)]
    if missing:
        return rt.fail("C17:advertised-name-missing", f"{missing}")
    ns = {}
    try:
        exec("from pydsol.core.units import *", ns)
    except Exception as e:      # noqa
        return rt.fail(f"C17:import-star-raised-{type(e).__name__}", f"{e!r}")
    return True


def _single_owner(unit, skip):
    owners = [q for q in U.QUANTITIES if q is not skip and unit in q._units]
    return owners[0] if len(owners) == 1 else None


def r_compound(qn) -> bool:
    """compound units a/b and a.b whose components are units of exactly one other quantity"""
    Q = getattr(U, qn)
    for u, f in Q._units.items():
        for sep in ("/", "."):
            if u.count(sep) == 1 and not any(c in u for c in "^23") and u.count("/") + u.count(".") == 1:
                a, b = u.split(sep)
                qa, qb = _single_owner(a, Q), _single_owner(b, Q)
                if qa is None or qb is None:
                    continue
                exp = qa._units[a] / qb._units[b] if sep == "/" else qa._units[a] * qb._units[b]
                expsig = [p - r if sep == "/" else p + r for p, r in zip(qa.sisig(), qb.sisig())]
                if expsig != list(Q.sisig()):
                    continue          # same spelling, other dimension
                if not math.isclose(f, exp, rel_tol=1e-9):
                    return rt.fail("C17:compound-unit-disagrees-with-components",
                                   f"{qn} {u!r}: factor {f!r}, {a!r}{sep}{b!r} gives {exp!r}")
    return True
